"""C20: the data sourcing actor's microgrid API source.

Implementation side: the REAL `MicrogridApiSource` (driven directly, or through the real
`DataSourcingActor` and its request channel) with a fake API client whose per-component data
receivers are `Broadcast` receivers the harness sends into, on `async_solipsism` virtual time.
Boundary events are recorded without touching the source:

  add     after `add_metric(request)` returned            (wrapper around the bound method)
  hstart  `_handle_data_stream(c, cat)` invoked           (wrapper; = the handler task's first step)
  recv    the API client's `<category>_data(c)` was called (fake client)
  goc     `ChannelRegistry.get_or_create(type, key)`      (registry subclass calling super())
  hcrash  `_handle_data_stream` raised                    (wrapper)
  api     the harness sent message k of component c       (fake client side)
  take    the handler consumed message k from the API receiver (tapping `Receiver.consume`)
  enq     `Sender.send(sample)` was entered for channel key (tapping `Broadcast.new_sender`)

The samples themselves are read at the end from receivers the harness created up-front on the
registry channels named by `ComponentMetricRequest.get_channel_name()`.

Model side: coq/model/DataSourcing.v; the recorded trace is replayed through its `step`."""
from __future__ import annotations

import asyncio
import json
from datetime import datetime, timedelta, timezone
from types import SimpleNamespace

from lib.core import Stream, cZ, clist, cbool

T0 = datetime(2020, 1, 1, tzinfo=timezone.utc)
CATS = ["METER", "INVERTER", "BATTERY", "EV_CHARGER"]
OTHER_CATS = ["GRID", "CHP", "NONE"]


# ----------------------------------------------------------------------------- real types
def _imports():
    from frequenz.channels import Broadcast, Receiver
    from frequenz.client.microgrid import (BatteryComponentState, BatteryData, BatteryRelayState, Component,
                                           ComponentCategory, ComponentMetricId, EVChargerCableState,
                                           EVChargerComponentState, EVChargerData, InverterComponentState,
                                           InverterData, MeterData)
    from frequenz.quantities import Quantity
    from frequenz.sdk._internal._channels import ChannelRegistry
    from frequenz.sdk.microgrid import connection_manager
    from frequenz.sdk.microgrid._data_sourcing import ComponentMetricRequest, DataSourcingActor
    from frequenz.sdk.microgrid._data_sourcing.microgrid_api_source import MicrogridApiSource
    from frequenz.sdk.timeseries import Sample
    return SimpleNamespace(**locals())


def metric_names():
    return [m.name for m in _imports().ComponentMetricId]


def metric_index(name: str) -> int:
    return metric_names().index(name)


# canonical field of every metric: (attribute, index in the per-phase tuple or None)
def field_of(metric: str):
    low = metric.lower()
    for stem in ("active_power", "reactive_power", "current", "voltage"):
        for ph in (1, 2, 3):
            if low == f"{stem}_phase_{ph}":
                return (f"{stem}_per_phase", ph - 1)
    return (low, None)


# Special float values a component may report in a field.  The model treats a value as an opaque token (Z);
# the harness maps every delivered value to its token: an integer-valued float to that integer, the special
# values to the reserved negative codes below, "sample without a value" (None) to NO_VALUE, anything else to -99.
SPECIALS = {"nan": float("nan"), "inf": float("inf"), "-inf": float("-inf"), "-0.0": -0.0,
            "denorm": 5e-324, "-denorm": -5e-324, "huge": 1.7976931348623157e308, "-huge": -1.7976931348623157e308}
TOKENS = {"nan": -1, "inf": -2, "-inf": -3, "-0.0": -4, "denorm": -5, "-denorm": -6, "huge": -7, "-huge": -8}
NO_VALUE = -9


def tok(v) -> int:
    """Token of a delivered value (NaN recognised by isnan, never by ==; None is not NaN)."""
    import math
    if v is None:
        return NO_VALUE
    if not isinstance(v, float):
        return -99
    if math.isnan(v):
        return TOKENS["nan"]
    if v == 0.0 and math.copysign(1.0, v) < 0:
        return TOKENS["-0.0"]
    for kind, x in SPECIALS.items():
        if kind != "nan" and kind != "-0.0" and v == x:
            return TOKENS[kind]
    if math.isfinite(v) and v == int(v) and abs(v) < 2 ** 53:
        return int(v)
    return -99


def special_of(case, cid: int, k: int):
    """{metric index: kind} of the special values in the k-th message of a component."""
    return {metric_index(m): kind for c, kk, m, kind in case.get("special", []) if c == cid and kk == k}


def field_token(case, cid: int, k: int, fld: int) -> int:
    sp = special_of(case, cid, k)
    return TOKENS[sp[fld]] if fld in sp else msg_value(cid, k, fld)


def msg_value(cid: int, k: int, fld: int) -> int:
    """Distinct integer for every (component, message number, field)."""
    return (cid * 1000 + k) * 100 + fld


def msg_ts_us(case, cid: int, k: int) -> int:
    """Timestamp of the k-th message of a component: one per second, except that messages listed in
    `same_ts` repeat the timestamp of their predecessor (exactly-once must not key on timestamps)."""
    same = {tuple(x) for x in case.get("same_ts", [])}
    t = 0
    for j in range(1, k + 1):
        if (cid, j) not in same:
            t = j
    return case.get("t0_s", 0) * 1_000_000 + (cid % 7) * 1000 + t * 1_000_000


DST_END_S = 25750797      # 2020-10-25 00:59:57 UTC: three seconds before Europe/Berlin falls back from +02:00 to +01:00
ZONES = ["UTC", "+02:00", "-09:30", "Europe/Berlin", "Asia/Kolkata", "America/St_Johns"]


def zone_of(case, cid: int, k: int):
    """The (aware) time zone the k-th message of a component carries its timestamp in."""
    spec = case.get("tz", {}).get(str(cid))
    return spec[k % len(spec)] if spec else "UTC"


def tzinfo_of(name: str):
    from zoneinfo import ZoneInfo
    if name == "UTC":
        return timezone.utc
    if name[0] in "+-":
        h, m = int(name[1:3]), int(name[4:6])
        return timezone((1 if name[0] == "+" else -1) * timedelta(hours=h, minutes=m))
    return ZoneInfo(name)


def stamp_us(dt) -> int:
    """The INSTANT of a delivered timestamp in microseconds since T0 (whatever zone it is expressed in)."""
    try:
        return int((dt - T0) / timedelta(microseconds=1))
    except TypeError:       # naive timestamp: not an instant at all
        return -1


def build_msg(I, cat: str, cid: int, k: int, ts_us: int, special=None, zone="UTC"):
    """A real *Data object whose every field that some metric reads carries msg_value(cid, k, field)."""
    names = metric_names()
    ts = (T0 + timedelta(microseconds=ts_us)).astimezone(tzinfo_of(zone))
    vals = {}
    for i, m in enumerate(names):
        attr, idx = field_of(m)
        v = float(msg_value(cid, k, i)) if not special or i not in special else SPECIALS[special[i]]
        if idx is None:
            vals[attr] = v
        else:
            vals.setdefault(attr, [None, None, None])[idx] = v
    vals = {a: (tuple(v) if isinstance(v, list) else v) for a, v in vals.items()}
    pick = lambda *attrs: {a: vals[a] for a in attrs}
    common = ("active_power", "active_power_per_phase", "reactive_power", "reactive_power_per_phase",
              "current_per_phase", "voltage_per_phase", "frequency")
    apb = ("active_power_inclusion_lower_bound", "active_power_exclusion_lower_bound",
           "active_power_inclusion_upper_bound", "active_power_exclusion_upper_bound")
    if cat == "METER":
        return I.MeterData(component_id=cid, timestamp=ts, **pick(*common))
    if cat == "INVERTER":
        return I.InverterData(component_id=cid, timestamp=ts, **pick(*common, *apb),
                              component_state=I.InverterComponentState.UNSPECIFIED, errors=[])
    if cat == "EV_CHARGER":
        return I.EVChargerData(component_id=cid, timestamp=ts, **pick(*common, *apb),
                               cable_state=I.EVChargerCableState.UNSPECIFIED,
                               component_state=I.EVChargerComponentState.UNSPECIFIED)
    if cat == "BATTERY":
        return I.BatteryData(component_id=cid, timestamp=ts,
                             **pick("soc", "soc_lower_bound", "soc_upper_bound", "capacity", "power_inclusion_lower_bound",
                                    "power_exclusion_lower_bound", "power_inclusion_upper_bound",
                                    "power_exclusion_upper_bound", "temperature"),
                             relay_state=I.BatteryRelayState.UNSPECIFIED,
                             component_state=I.BatteryComponentState.UNSPECIFIED, errors=[])
    raise ValueError(cat)


def has_field(cat: str, metric: str) -> bool:
    """Whether the *Data class of the category has the metric's canonical field at all."""
    attr, _ = field_of(metric)
    if cat == "BATTERY":
        return attr in ("soc", "soc_lower_bound", "soc_upper_bound", "capacity", "power_inclusion_lower_bound",
                        "power_exclusion_lower_bound", "power_inclusion_upper_bound", "power_exclusion_upper_bound",
                        "temperature")
    common = ("active_power", "active_power_per_phase", "reactive_power", "reactive_power_per_phase",
              "current_per_phase", "voltage_per_phase", "frequency")
    if cat == "METER":
        return attr in common
    return attr in common or attr.startswith("active_power_")


# ----------------------------------------------------------------------------- the driver
def _request(I, a):
    start = None if a.get("start") is None else T0 + timedelta(seconds=a["start"])
    return I.ComponentMetricRequest(a["ns"], a["cid"], I.ComponentMetricId[a["metric"]], start)


class ApiFault(ConnectionError):
    """Raised by the fake API client where the case asks for a failing call."""


async def _run(case):
    I = _imports()
    log: list = []
    cats = {cid: cat for cid, cat in case["comps"]}
    suspend = case.get("suspend", {})
    faults = case.get("faults", {})
    fail_components = set(faults.get("components", []))          # 1-based indices of failing components() calls
    fail_data = {int(c): set(v) for c, v in faults.get("data", {}).items()}   # per component: failing *_data() calls
    ncalls = {"components": 0}
    ndata: dict = {}
    probes: dict = {}
    extra: dict = {}
    # per component: how long the n-th stream-opening call stays pending: [loop iterations, quarter seconds]
    open_delay = {int(c): v for c, v in case.get("open", {}).items()}

    async def _yield(n):
        for _ in range(n):
            await asyncio.sleep(0)

    # ---- fake API client: one Broadcast per component, data receivers tapped at consume()
    api_chans = {cid: I.Broadcast(name=f"api-{cid}") for cid in cats}
    api_senders = {cid: ch.new_sender() for cid, ch in api_chans.items()}
    msg_index = {}

    class Tap(I.Receiver):
        def __init__(self, inner, cid):
            self._inner, self._cid = inner, cid

        async def ready(self):
            return await self._inner.ready()

        def consume(self):
            m = self._inner.consume()
            log.append(["take", self._cid, msg_index.get(id(m), -1)])
            return m

    class FakeClient:
        async def components(self):
            ncalls["components"] += 1
            await _yield(suspend.get("components", 0))
            if ncalls["components"] in fail_components:
                raise ApiFault("components() failed")
            return [I.Component(component_id=cid, category=I.ComponentCategory[cat]) for cid, cat in case["comps"]]

        async def _data(self, cid, cat):
            if cats.get(cid) != cat:
                raise ValueError(f"component {cid} is not a {cat}")
            ndata[cid] = ndata.get(cid, 0) + 1
            log.append(["dcall", cid])
            spec = open_delay.get(cid, [])
            its, quarters = spec[ndata[cid] - 1] if ndata[cid] <= len(spec) else (0, 0)
            try:
                await _yield(its)
                if quarters:
                    await asyncio.sleep(0.25 * quarters + 0.01)
            except asyncio.CancelledError:
                log.append(["dcancel", cid])      # the calling task was cancelled while the call was pending
                raise
            # like the real client, the receiver is created only when the call returns
            if ndata[cid] in fail_data.get(cid, ()):
                log.append(["datafail", cid])
                raise ApiFault(f"{cat.lower()}_data({cid}) failed")
            log.append(["recv", cid])
            return Tap(api_chans[cid].new_receiver(limit=100000), cid)

        async def meter_data(self, cid, maxsize=50):
            return await self._data(cid, "METER")

        async def inverter_data(self, cid, maxsize=50):
            return await self._data(cid, "INVERTER")

        async def battery_data(self, cid, maxsize=50):
            return await self._data(cid, "BATTERY")

        async def ev_charger_data(self, cid, maxsize=50):
            return await self._data(cid, "EV_CHARGER")

    saved_cm = I.connection_manager._CONNECTION_MANAGER
    I.connection_manager._CONNECTION_MANAGER = SimpleNamespace(api_client=FakeClient(), component_graph=None)

    class TapSender:
        def __init__(self, inner, key):
            self._inner, self._key = inner, key

        async def send(self, message):
            ts = stamp_us(message.timestamp)
            v = message.value.base_value if message.value is not None else None
            log.append(["enq", self._key, ts, tok(v)])
            await self._inner.send(message)

    # ---- registry: real get_or_create, every call by the source recorded, every sender tapped
    class TapRegistry(I.ChannelRegistry):
        quiet = False

        def get_or_create(self, message_type, key):
            if not self.quiet:
                log.append(["goc", key])
            ch = super().get_or_create(message_type, key)
            if not getattr(ch, "_c20_tapped", False):
                orig_new_sender = ch.new_sender
                ch.new_sender = (lambda o=orig_new_sender, k=key: TapSender(o(), k))  # type: ignore[method-assign]
                ch._c20_tapped = True
            return ch

    registry = TapRegistry(name="c20")

    # receivers on every channel a request of this case names, created before anything runs
    subs = [a for a in case["actions"] if a["t"] == "sub"]
    key_of = {}
    out_recv = {}
    TapRegistry.quiet = True
    for a in subs:
        req = _request(I, a)
        key = req.get_channel_name()
        key_of[descr(a)] = key
        if key not in out_recv:
            out_recv[key] = registry.get_or_create(I.Sample[I.Quantity], key).new_receiver(limit=100000)
    TapRegistry.quiet = False

    # ---- every MicrogridApiSource instance is tapped (class-level, restored at the end)
    SRC = I.MicrogridApiSource
    orig_add, orig_handle = SRC.add_metric, SRC._handle_data_stream
    sources: list = []

    async def add_metric(self, req):
        if self not in sources:
            sources.append(self)
        try:
            await orig_add(self, req)
        except Exception as exc:  # noqa: BLE001
            log.append(["addfail", req.component_id, req.get_channel_name(), type(exc).__name__])
            raise
        log.append(["add", req.component_id, req.get_channel_name()])

    async def handle(self, comp_id, category):
        if self not in sources:
            sources.append(self)
        log.append(["hstart", comp_id])
        try:
            return await orig_handle(self, comp_id, category)
        except Exception as exc:  # noqa: BLE001
            log.append(["hcrash", comp_id, type(exc).__name__])
            raise

    SRC.add_metric = add_metric  # type: ignore[method-assign]
    SRC._handle_data_stream = handle  # type: ignore[method-assign]

    # ---- the real source (directly or inside the real actor)
    actor = None
    source = None
    errors = []
    try:
        if case.get("mode", "direct") in ("actor", "pipeline"):
            if case["mode"] == "pipeline":
                # production wiring: the real _DataPipeline creates the request channel, the actor's request
                # receiver (with the capacity it configures) and starts the actor
                from frequenz.sdk.microgrid import _data_pipeline as DP
                pipe = DP._DataPipeline.__new__(DP._DataPipeline)
                pipe._data_sourcing_actor = None
                pipe._channel_registry = registry
                req_sender = pipe._data_sourcing_request_sender()
                actor = pipe._data_sourcing_actor.actor
                import re as _re
                mm = _re.search(r"limit=(\d+)", repr(actor._request_receiver))
                extra["req_limit"] = int(mm.group(1)) if mm else -1
                extra["req_bound"] = int(DP._REQUEST_RECV_BUFFER_SIZE)
            else:
                req_chan = I.Broadcast(name="requests")
                req_sender = req_chan.new_sender()
                actor = I.DataSourcingActor(req_chan.new_receiver(limit=1000), registry)
            orig_run = actor._run
            nruns = [0]

            async def run_tap():
                nruns[0] += 1
                if nruns[0] > 1:
                    log.append(["restart"])
                await orig_run()
            actor._run = run_tap  # type: ignore[method-assign]
            if case["mode"] == "actor":
                actor.start()
        else:
            source = I.MicrogridApiSource(registry)
        sent = {cid: 0 for cid in cats}
        for a in case["actions"]:
            g = a.get("gap", 0)
            if g < 0:
                await asyncio.sleep(0.25 * -g)   # let everything settle (virtual time)
            else:
                await _yield(g)
            if a["t"] == "sub":
                req = _request(I, a)
                log.append(["req", req.component_id, req.get_channel_name()])    # the consumer issues the request
                if actor is not None:
                    await req_sender.send(req)
                else:
                    try:
                        await source.add_metric(req)
                    except ApiFault:
                        pass
            elif a["t"] == "close":
                key = _request(I, a).get_channel_name()
                log.append(["close", key])
                if key in registry:
                    await registry.close_and_remove(key)     # the consumer gives its channel up
            elif a["t"] == "msg":
                cid = a["cid"]
                k = sent[cid]
                sent[cid] += 1
                m = build_msg(I, cats[cid], cid, k, msg_ts_us(case, cid, k), special_of(case, cid, k), zone_of(case, cid, k))
                msg_index[id(m)] = k
                keep.append(m)   # ids stay unique while the objects are alive
                log.append(["api", cid, k])
                await api_senders[cid].send(m)
        # quiesce; without faults < 1 s so that nothing but the scenario is on the trace; with faults
        # long enough for every RESTART_DELAY (2 s) of the actor and every retry of run_forever (1 s)
        slow = sum(0.25 * q + 0.02 for v in open_delay.values() for _, q in v)
        await asyncio.sleep(slow + (2.2 * (len(fail_components) + 1) + 1.3 * sum(len(v) for v in fail_data.values()) + 1.1 if faults else 0.9))
        # liveness probe: once everything has settled the API sends one more message per component; every
        # stream that is subscribed by then has to get it (a stream that was never opened shows up here)
        for cid in sorted(cats):
            if cats[cid] in CATS:
                k = sent[cid]
                sent[cid] += 1
                m = build_msg(I, cats[cid], cid, k, msg_ts_us(case, cid, k), special_of(case, cid, k), zone_of(case, cid, k))
                msg_index[id(m)] = k
                keep.append(m)
                probes[str(cid)] = k
                log.append(["api", cid, k])
                await api_senders[cid].send(m)
        await asyncio.sleep(0.9)
    except Exception as exc:  # noqa: BLE001
        errors.append(f"driver: {type(exc).__name__}: {exc}")
    finally:
        SRC.add_metric, SRC._handle_data_stream = orig_add, orig_handle  # type: ignore[method-assign]
        tasks = [t for src in sources for t in src.comp_data_tasks.values()]
        for t in tasks:
            t.cancel()
        if actor is not None:
            try:
                await actor.stop()
            except Exception as exc:  # noqa: BLE001
                errors.append(f"stop: {type(exc).__name__}")
        await asyncio.gather(*tasks, return_exceptions=True)
        I.connection_manager._CONNECTION_MANAGER = saved_cm

    streams = {}
    for key, r in out_recv.items():
        got = []
        while len(r) > 0:
            await r.ready()
            s = r.consume()
            ts = stamp_us(s.timestamp)
            v = s.value.base_value if s.value is not None else None
            got.append([ts, tok(v)])
        streams[key] = got
    return {"log": log, "streams": streams, "keys": key_of, "errors": errors, "probes": probes, **extra}


keep: list = []


def run_case(case):
    import async_solipsism
    keep.clear()
    loop = async_solipsism.EventLoop()
    loop.set_exception_handler(lambda _loop, _ctx: None)   # "exception was never retrieved" reports are not observations
    asyncio.set_event_loop(loop)
    try:
        return loop.run_until_complete(_run(case))
    finally:
        try:
            loop.run_until_complete(loop.shutdown_asyncgens())
        finally:
            asyncio.set_event_loop(None)
            loop.close()


# ----------------------------------------------------------------------------- names / descriptors
def descr(a):
    return json.dumps([a["cid"], a["metric"], a["ns"], a.get("start")])


def tags_of(case):
    pairs = sorted({(a["ns"], -1 if a.get("start") is None else a["start"]) for a in case["actions"] if a["t"] == "sub"})
    return {p: i for i, p in enumerate(pairs)}


def name_of(case, a):
    """(component id, metric index, tag) — the model's view of a request's channel name."""
    tg = tags_of(case)[(a["ns"], -1 if a.get("start") is None else a["start"])]
    return (a["cid"], metric_index(a["metric"]), tg)


def key_table(case, obs):
    """channel key string -> (cid, metric idx, tag) of the FIRST request of the case that produced it."""
    tab = {}
    for a in case["actions"]:
        if a["t"] == "sub":
            k = obs["keys"][descr(a)]
            tab.setdefault(k, name_of(case, a))
    return tab


def cat_of(case, cid):
    return dict((c, k) for c, k in case["comps"]).get(cid)


def supported(cat, metric) -> bool:
    """Which metrics the property talks about: the category's message has a field for it.
    (EV chargers carry active-power bounds the source has no extractor for: not claimed here.)"""
    if cat not in CATS:
        return False
    if cat == "EV_CHARGER" and metric.startswith("ACTIVE_POWER_") and "CLUSION" in metric:
        return False
    return has_field(cat, metric)


# ----------------------------------------------------------------------------- trace -> model events
def c_name(n):
    return f"(mkN {n[1]} {n[2]})"


def c_msg(case, cid, k):
    # `mk ts base` (defined in the case-file header) = message whose field i holds base + i
    sp = special_of(case, cid, k)
    if sp:
        ov = "; ".join(f"({i}%nat, {cZ(TOKENS[kind])})" for i, kind in sorted(sp.items()))
        return f"(mks {cZ(msg_ts_us(case, cid, k))} {cZ(msg_value(cid, k, 0))} [{ov}])"
    return f"(mk {cZ(msg_ts_us(case, cid, k))} {cZ(msg_value(cid, k, 0))})"


def c_out(cid, n, ts, v):
    return f"({cZ(cid)}, {c_name(n)}, ({cZ(ts)}, {cZ(v)}))"


def to_events(case, obs):
    """[(event term, observed term)] or None when the log has a shape the model has no event for."""
    tab = key_table(case, obs)
    log = obs["log"]
    ev = []
    pending = {}     # component -> a handler task has entered _handle_data_stream but not yet snapshotted
    i = 0
    while i < len(log):
        e = log[i]
        if e[0] == "add":
            if e[2] not in tab:
                return None
            n = tab[e[2]]
            ev.append((f"AddMetric {cZ(e[1])} {c_name(n)}", "ONone"))
            i += 1
        elif e[0] == "hstart":
            # the task entered _handle_data_stream; the model's HandlerStart is the step that validates,
            # creates the receiver and looks the channels up (recv/goc burst) or raises (hcrash)
            pending[e[1]] = True   # (an earlier pending one was cancelled by a newer request)
            i += 1
        elif e[0] == "addfail":
            if e[2] not in tab:
                return None
            ev.append((f"AddFault {cZ(e[1])} {c_name(tab[e[2]])}", "ONone"))
            i += 1
        elif e[0] == "restart":
            ev.append(("Restart", "ONone"))
            i += 1
        elif e[0] in ("close", "req"):
            i += 1      # the consumer's own action: no event of the source
        elif e[0] == "dcall":
            if not pending.get(e[1]):
                return None
            ev.append((f"HandlerOpen {cZ(e[1])}", "ONone"))     # the handler awaits the stream-opening call
            i += 1
        elif e[0] == "dcancel":
            i += 1      # the cancelled task dies inside the call (the model's AddMetric already replaced it)
        elif e[0] in ("recv", "goc", "hcrash", "datafail"):
            cid = e[1] if e[0] != "goc" else (tab[e[1]][0] if e[1] in tab else None)
            if cid is None or not pending.get(cid):
                return None
            pending[cid] = False
            created, names, crashed, apifault = False, [], False, False
            while i < len(log) and log[i][0] in ("recv", "goc", "hcrash", "datafail"):
                x = log[i]
                xc = x[1] if x[0] != "goc" else (tab[x[1]][0] if x[1] in tab else None)
                if xc != cid:
                    break                      # another component's handler: its own event
                if x[0] == "recv":
                    if names:
                        return None
                    created = True
                elif x[0] == "datafail":
                    apifault = True
                elif x[0] == "goc":
                    names.append(tab[x[1]])
                else:
                    crashed = True
                    i += 1
                    break
                i += 1
            if crashed:
                ev.append((f"{'HandlerFail' if apifault else 'HandlerStart'} {cZ(cid)}", "OCrash"))
            else:
                ev.append((f"HandlerStart {cZ(cid)}", f"OStart {cbool(created)} {clist(names, c_name)}"))
        elif e[0] == "api":
            ev.append((f"ApiMsg {cZ(e[1])} {c_msg(case, e[1], e[2])}", "ONone"))
            i += 1
        elif e[0] == "take":
            if e[2] < 0:
                return None
            ev.append((f"Take {cZ(e[1])}", f"OTake {c_msg(case, e[1], e[2])}"))
            i += 1
        elif e[0] == "enq":
            grp = []
            ident, seen_keys = None, set()
            while i < len(log) and log[i][0] == "enq":
                x = log[i]
                if x[1] not in tab or not isinstance(x[3], int):
                    return None
                n = tab[x[1]]
                idn = (n[0], x[2])
                # one fan-out = one component, one timestamp, at most one send per channel
                if ident is not None and (idn != ident or x[1] in seen_keys):
                    break
                ident = idn
                seen_keys.add(x[1])
                grp.append(c_out(n[0], n, x[2], x[3]))
                i += 1
            ev.append(("Deliver", f"OSent [{'; '.join(grp)}]"))
        else:
            return None
    return ev


CATC = {"METER": "Meter", "INVERTER": "Inverter", "BATTERY": "Battery", "EV_CHARGER": "EvCharger"}

MK = """(* the harness' messages: the field read by metric i holds base + i *)
Definition mk (ts base : Z) : msg := mkMsg ts (map (fun i => base + Z.of_nat i) (seq 0 28)).
(* ... except the listed fields, which hold the token of a special float value (NaN -1, +inf -2, -inf -3,
   -0.0 -4, +-denormal -5/-6, +-huge -7/-8); a sample delivered WITHOUT a value is observed as token -9 *)
Definition mks (ts base : Z) (ov : list (nat * Z)) : msg :=
  mkMsg ts (map (fun i => match find (fun p => Nat.eqb (fst p) i) ov with
                          | Some p => snd p
                          | None => base + Z.of_nat i
                          end) (seq 0 28)).
"""

HEADER = """From Verif Require Import model.DataSourcing.
""" + MK + """(* case: components() answer, recorded trace with what was observed at each event, the component ids,
   and per channel (component, name) the samples the harness read from the registry channel *)
Definition check (c : list (comp * category) * list (event * observed) * list (comp * name * list sample)
                      * list (comp * name * list sample)) : bool :=
  let '(cl, evs, streams, closed) := c in
  match run_checked (cats_of cl) init evs with
  | None => false
  | Some s =>
      quiescent s (map fst cl) &&
      forallb (fun x => list_eqb sample_eqb (chan_out (fst (fst x)) (snd (fst x)) (st_out s)) (snd x)) streams &&
      (* channels their consumer closed mid-stream: what was read is a prefix of what was sent *)
      forallb (fun x => prefix_eqb (snd x) (chan_out (fst (fst x)) (snd (fst x)) (st_out s))) closed
  end.
"""


def case_term(case, obs):
    cl = "[" + "; ".join(f"({cZ(c)}, {CATC.get(k, 'OtherCat')})" for c, k in case["comps"]) + "]"
    ev = to_events(case, obs)
    if ev is None or obs["errors"]:
        # the run left the model's alphabet: an event no state enables
        return f"({cl}, [(Deliver, ONone)], @nil (comp * name * list sample), @nil (comp * name * list sample))"
    evs = "[" + ";\n    ".join(f"({e}, {o})" for e, o in ev) + "]" if ev else "@nil (event * observed)"
    tab = key_table(case, obs)
    closed_keys = {e[1] for e in obs["log"] if e[0] == "close"}
    st, cl_st = [], []
    for key, got in sorted(obs["streams"].items()):
        n = tab[key]
        if any(not isinstance(v, int) for _, v in got):
            return f"({cl}, [(Deliver, ONone)], @nil (comp * name * list sample), @nil (comp * name * list sample))"
        smp = "[" + "; ".join(f"({cZ(t)}, {cZ(v)})" for t, v in got) + "]" if got else "@nil sample"
        (cl_st if key in closed_keys else st).append(f"({cZ(n[0])}, {c_name(n)}, {smp})")
    sts = "[" + "; ".join(st) + "]" if st else "@nil (comp * name * list sample)"
    csts = "[" + "; ".join(cl_st) + "]" if cl_st else "@nil (comp * name * list sample)"
    return f"({cl}, {evs}, {sts}, {csts})"


def show_term(case, obs):
    cl = "[" + "; ".join(f"({cZ(c)}, {CATC.get(k, 'OtherCat')})" for c, k in case["comps"]) + "]"
    ev = to_events(case, obs)
    if ev is None:
        return None
    evs = "[" + "; ".join(f"({e})" for e, _ in ev) + "]"
    return f"match run (cats_of {cl}) init {evs} with Some s => Some (st_out s, st_fly s) | None => None end"


# ----------------------------------------------------------------------------- property oracle
def show_tok(t) -> str:
    inv = {v: k for k, v in TOKENS.items()}
    return "a sample without value (None)" if t == NO_VALUE else inv[t] if t in inv else "an unexpected value" if t == -99 else str(t)


def oracle(case, obs):
    """C20 judged on what was sent into the fake API vs what came out of the registry channels."""
    out = []
    if obs["errors"]:
        out.append({"what": f"driver: {obs['errors'][0]}", "finding": None})
    log = obs["log"]
    cats = dict((c, k) for c, k in case["comps"])
    # messages the SDK received from the API: sent after the component's data receiver was created
    first_recv = {}
    for p, e in enumerate(log):
        if e[0] == "recv":
            first_recv.setdefault(e[1], p)
    accepted = {c: [] for c in cats}
    api_pos = {}
    for p, e in enumerate(log):
        if e[0] == "api":
            api_pos[(e[1], e[2])] = p
            if e[1] in first_recv and p > first_recv[e[1]]:
                accepted[e[1]].append(e[2])
    add_pos = {}
    for p, e in enumerate(log):
        if e[0] == "add":
            add_pos.setdefault(e[2], p)
    add_failed = {e[2] for e in log if e[0] == "addfail"}      # the API client raised while the request was handled
    n_req, n_fail = {}, {}
    for e in log:
        if e[0] == "req":
            n_req[e[2]] = n_req.get(e[2], 0) + 1
        elif e[0] == "addfail":
            n_fail[e[2]] = n_fail.get(e[2], 0) + 1
    closed_keys = {e[1] for e in log if e[0] == "close"}       # the consumer closed its channel mid-stream
    # requests naming a metric the category has no data for (they must be ignored like unknown ids)
    invalid = {}
    for a in case["actions"]:
        if a["t"] == "sub" and a["cid"] in cats and not supported(cats[a["cid"]], a["metric"]):
            invalid.setdefault(a["cid"], a["metric"])
    seen_desc = set()
    eff_adds = {c: 0 for c in cats}
    for a in case["actions"]:
        if a["t"] != "sub":
            continue
        cid, d = a["cid"], descr(a)
        key = obs["keys"][d]
        got = obs["streams"].get(key, [])
        if cid not in cats:
            if got:
                out.append({"what": f"unknown: request for unknown component {cid} produced samples", "finding": None})
            continue
        if d in seen_desc:
            continue
        seen_desc.add(d)
        if key not in add_pos:
            if key not in add_failed:
                out.append({"what": f"request: {d} was never processed", "finding": None})
            elif n_req.get(key, 0) > n_fail.get(key, 0):
                # requests are handled in the order they were issued: one issued after the last fault got no answer
                out.append({"what": f"request: {d} was issued {n_req[key]} times, failed {n_fail[key]} times with an API error and "
                                    f"was not served when it was sent again after the last failure", "finding": None})
            elif got:
                out.append({"what": f"fault: request {d} failed with an API error but its stream received samples", "finding": None})
            continue
        if not supported(cats[cid], a["metric"]):
            if got:
                out.append({"what": f"invalid: request {d} for a metric {cats[cid]} data does not provide produced samples", "finding": None})
            continue
        eff_adds[cid] += 1
        mi = metric_index(a["metric"])
        # what a sample of message k on this stream has to be: (the message's timestamp, that metric's value)
        nmsg = 1 + max([k for (c, k) in api_pos if c == cid], default=-1)
        want = {k: (msg_ts_us(case, cid, k), field_token(case, cid, k, mi)) for k in range(nmsg)}
        ks = []
        bad = False
        for ts, v in got:
            cand = [k for k in range(nmsg) if want[k] == (ts, v)]
            if not cand:
                same_ts = [k for k in range(nmsg) if want[k][0] == ts]
                if same_ts:
                    k = same_ts[0]
                    out.append({"what": f"value: stream {d} delivered {show_tok(v)} for message {k} of component {cid} whose "
                                        f"{a['metric']} field holds {show_tok(want[k][1])}", "finding": None})
                else:
                    out.append({"what": f"timestamp: stream {d} carries a sample ({ts}, {show_tok(v)}) that is no message's "
                                        f"(timestamp, {a['metric']}) of component {cid}", "finding": None})
                bad = True
                break
            later = [k for k in cand if not ks or k > ks[-1]]
            ks.append(later[0] if later else cand[0])
        if bad:
            continue
        if len(set(ks)) != len(ks):
            dup = next(k for k in ks if ks.count(k) > 1)
            out.append({"what": f"duplicate: message {dup} of component {cid} delivered {ks.count(dup)} times on {d}", "finding": None})
            continue
        if ks != sorted(ks):
            out.append({"what": f"order: stream {d} received messages in order {ks}", "finding": None})
            continue
        must = [k for k in accepted[cid] if api_pos[(cid, k)] > add_pos[key]]
        if ks:
            must = sorted(set(must) | {k for k in accepted[cid] if k >= ks[0]})
        missing = [k for k in must if k not in ks]
        extra = [k for k in ks if k not in accepted[cid]]
        if key in closed_keys:
            continue           # its consumer gave the channel up: no claim about what it still gets
        probe = obs.get("probes", {}).get(str(cid))
        if probe is not None and probe not in ks:
            opened = cid in first_recv
            out.append({"what": f"stall: stream {d} did not receive message {probe} of component {cid}, sent by the API after "
                                f"everything had settled ({'the data stream was open' if opened else 'the component data stream was never opened'})",
                        "finding": None})
            continue
        if extra:
            out.append({"what": f"phantom: stream {d} received messages {extra} the API receiver never got", "finding": None})
        if missing:
            why = (f" (the component also got a request for {invalid[cid]}, which {cats[cid]} data does not provide)"
                   if cid in invalid else "")
            out.append({"what": f"loss: stream {d} did not receive messages {missing} of component {cid} that the API "
                                f"receiver got while it was subscribed{why}", "finding": None})
    # a repeated identical request has no effect: the handler is (re)started at most once per new channel name
    for c in cats:
        starts = sum(1 for e in log if e[0] == "hstart" and e[1] == c) - sum(1 for e in log if e[0] == "hcrash" and e[1] == c)
        if starts > eff_adds[c]:
            out.append({"what": f"repeat: handler of component {c} was successfully (re)started {starts} times for {eff_adds[c]} distinct accepted requests", "finding": None})
    return out


# ----------------------------------------------------------------------------- generation
POOL = [(4, "METER"), (6, "INVERTER"), (9, "BATTERY"), (12, "EV_CHARGER"), (15, "METER"), (18, "BATTERY"), (21, "INVERTER")]


def supported_metrics(cat):
    return [m for m in metric_names() if supported(cat, m)]


# namespaces that differ only in capitalisation or surrounding whitespace are DIFFERENT namespaces
NAMESPACES = ["a", "a", "a", "b", "A", " a", "a ", "B"]


def gen_gap(rng):
    r = rng.random()
    if r < 0.42:
        return 0
    if r < 0.60:
        return 1
    if r < 0.72:
        return 2
    if r < 0.82:
        return rng.randint(3, 6)
    return -1


def gen_case(rng, maxlen=12, unsupported=False):
    ncomp = rng.choice([1, 1, 2, 2, 3, 4])
    comps = rng.sample(POOL, ncomp)
    comps.sort()
    nodata = [(30, rng.choice(OTHER_CATS))] if unsupported and rng.random() < 0.3 else []
    case = {"mode": rng.choice(["direct"] * 11 + ["actor"] * 7 + ["pipeline"] * 2), "comps": [list(c) for c in comps], "actions": []}
    if rng.random() < 0.3:
        # message timestamps expressed in other (aware) time zones, possibly across the end of DST
        case["tz"] = {str(c): [rng.choice(ZONES) for _ in range(3)] for c, _ in comps}
        if rng.random() < 0.5:
            case["t0_s"] = DST_END_S
    if rng.random() < 0.25:
        case["suspend"] = {"components": rng.randint(1, 3)}
    # few metrics per component so that channels are shared and duplicates are likely
    favs = {c: rng.sample(supported_metrics(k), min(3, len(supported_metrics(k)))) for c, k in comps}
    subs = []
    sent = {c: 0 for c, _ in comps}
    same = []
    n = rng.randint(3, maxlen)
    for _ in range(n):
        r = rng.random()
        if r < 0.45:
            cid = rng.choice(comps)[0]
            a = {"t": "msg", "cid": cid, "gap": gen_gap(rng)}
            if sent[cid] > 0 and rng.random() < 0.08:
                same.append([cid, sent[cid]])
            sent[cid] += 1
        elif subs and r < 0.57:
            a = dict(rng.choice(subs))       # identical request again
            a["gap"] = gen_gap(rng)
        elif r < 0.63:
            a = {"t": "sub", "cid": rng.choice([1, 5, 99]), "metric": rng.choice(["ACTIVE_POWER", "SOC"]),
                 "ns": rng.choice("ab"), "start": None, "gap": gen_gap(rng)}
        else:
            cid, cat = rng.choice(comps)
            a = {"t": "sub", "cid": cid, "metric": rng.choice(favs[cid]), "ns": rng.choice(NAMESPACES),
                 "start": rng.choice([None, None, None, 5]), "gap": gen_gap(rng)}
            subs.append(a)
        case["actions"].append(a)
    if rng.random() < 0.4:
        case["open"] = gen_open(rng, comps)
    if unsupported:
        cid, cat = rng.choice(comps + nodata)
        bad = [m for m in metric_names() if not supported(cat, m)]
        for _ in range(rng.choice([1, 1, 2])):
            pos = rng.randint(0, len(case["actions"]))
            case["actions"].insert(pos, {"t": "sub", "cid": cid, "metric": rng.choice(bad), "ns": "a", "start": None,
                                         "gap": gen_gap(rng)})
        case["comps"] = [list(c) for c in sorted(comps + nodata)]
    if same:
        case["same_ts"] = same
    if rng.random() < 0.35:
        # special float values in fields that are (likely) subscribed; also in the closing probe message
        sp = []
        for c, _ in comps:
            if any(x[0] == c for x in same):
                continue       # messages are told apart by (timestamp, value): keep those unique
            for _ in range(rng.choice([1, 2, 3])):
                sp.append([c, rng.randint(0, sent[c]), rng.choice(favs[c]), rng.choice(sorted(SPECIALS))])
        uniq = {}
        for x in sp:
            uniq[(x[0], x[1], x[2])] = x
        if uniq:
            case["special"] = sorted(uniq.values())
    return case


def boundary_cases():
    """Hand-written hand-over scenarios, one per category."""
    out = []
    first = {"METER": "ACTIVE_POWER", "INVERTER": "ACTIVE_POWER_INCLUSION_UPPER_BOUND", "BATTERY": "SOC", "EV_CHARGER": "FREQUENCY"}
    second = {"METER": "VOLTAGE_PHASE_2", "INVERTER": "REACTIVE_POWER_PHASE_3", "BATTERY": "TEMPERATURE", "EV_CHARGER": "CURRENT_PHASE_1"}
    for cid, cat in POOL[:4]:
        S = lambda metric, ns="a", gap=0, start=None: {"t": "sub", "cid": cid, "metric": metric, "ns": ns, "start": start, "gap": gap}
        M = lambda gap=0: {"t": "msg", "cid": cid, "gap": gap}
        for mode in ("direct", "actor"):
            for g in (0, 1, 2, 3, 4):
                # subscribe, stream, add a subscription g loop iterations after a message, keep streaming
                out.append({"mode": mode, "comps": [[cid, cat]], "actions": [
                    S(first[cat]), M(-1), M(0), S(second[cat], gap=g), M(0), M(0), S(first[cat], ns="b", gap=g), M(0), M(-1)]})
            # before the first message / duplicates back-to-back / same channel requested with a start time
            out.append({"mode": mode, "comps": [[cid, cat]], "actions": [
                M(0), S(first[cat]), S(first[cat]), S(second[cat]), M(0), M(0), S(first[cat], gap=1), M(1),
                S(first[cat], start=5), M(0), {"t": "sub", "cid": 77, "metric": first[cat], "ns": "a", "start": None, "gap": 0}, M(0)]})
    invalid = {"METER": "SOC", "INVERTER": "CAPACITY", "BATTERY": "ACTIVE_POWER", "EV_CHARGER": "ACTIVE_POWER_INCLUSION_LOWER_BOUND"}
    for cid, cat in POOL[:4]:
        for mode in ("direct", "actor"):
            out.append({"mode": mode, "comps": [[cid, cat], [30, "GRID"]], "actions": [
                {"t": "sub", "cid": cid, "metric": first[cat], "ns": "a", "start": None, "gap": 0},
                {"t": "msg", "cid": cid, "gap": -1},
                {"t": "sub", "cid": cid, "metric": invalid[cat], "ns": "a", "start": None, "gap": -1},
                {"t": "sub", "cid": 30, "metric": "ACTIVE_POWER", "ns": "a", "start": None, "gap": 0},
                {"t": "msg", "cid": cid, "gap": -1}, {"t": "msg", "cid": cid, "gap": -6}]})
    return out


def all_metrics_cases():
    """Every supported (category, metric) pair subscribed on one component, two messages."""
    out = []
    for cid, cat in POOL[:4]:
        acts = []
        for m in supported_metrics(cat):
            acts.append({"t": "sub", "cid": cid, "metric": m, "ns": "a", "start": None, "gap": 0})
        acts += [{"t": "msg", "cid": cid, "gap": -1}, {"t": "msg", "cid": cid, "gap": 0}]
        out.append({"mode": "direct", "comps": [[cid, cat]], "actions": acts})
    return out


def small_scope(maxlen, gaps=(0, 1, -1)):
    """Every word up to [maxlen] over {new subscription A, new subscription B, repeat A, message} x gaps
    on one meter, closed by a settled message."""
    import itertools
    cid = 4
    SA = {"t": "sub", "cid": cid, "metric": "ACTIVE_POWER", "ns": "a", "start": None}
    SB = {"t": "sub", "cid": cid, "metric": "FREQUENCY", "ns": "a", "start": None}
    MM = {"t": "msg", "cid": cid}
    for ln in range(1, maxlen + 1):
        for word in itertools.product("ABM", repeat=ln):
            if "A" not in word and "B" not in word:
                continue
            for gp in itertools.product(gaps, repeat=ln):
                acts = [dict({"A": SA, "B": SB, "M": MM}[w], gap=g) for w, g in zip(word, gp)]
                yield {"mode": "direct", "comps": [[cid, "METER"]], "actions": acts + [dict(MM, gap=0)]}


def gen_open(rng, comps):
    """How long each of the first calls that open a component's stream stays pending."""
    out = {}
    for c, _ in comps:
        if rng.random() < 0.8:
            out[str(c)] = [[rng.choice([0, 1, 1, 2, 3, 4, 6, 8]), rng.choice([0, 0, 0, 1, 2])] for _ in range(4)]
    return out


def special_value_cases():
    """Every special float value in a subscribed field (and in an unsubscribed one), every category."""
    out = []
    kinds = sorted(SPECIALS)
    for cid, cat in POOL[:4]:
        ms = supported_metrics(cat)
        m1, m2, m3 = ms[0], ms[len(ms) // 2], ms[-1]
        S = lambda metric, ns="a", gap=0: {"t": "sub", "cid": cid, "metric": metric, "ns": ns, "start": None, "gap": gap}
        M = lambda gap=0: {"t": "msg", "cid": cid, "gap": gap}
        sp = []
        for k, kind in enumerate(kinds):
            sp.append([cid, k, m1, kind])
            sp.append([cid, k, m2, kinds[(k + 3) % len(kinds)]])
            sp.append([cid, k, m3, kinds[(k + 5) % len(kinds)]])      # m3 is subscribed late
        for mode in ("direct", "actor"):
            out.append({"mode": mode, "comps": [[cid, cat]], "special": sp, "actions":
                        [S(m1), S(m2, ns="b")] + [M(-1 if k % 3 == 0 else k % 2) for k in range(4)] + [S(m3, gap=1)] +
                        [M(0) for _ in range(len(kinds) - 4)] + [M(-1)]})
    return out


def namespace_cases():
    """Same component and metric requested under namespaces equal up to capitalisation / whitespace: separate
    streams, each message once on each; closing one leaves the other alone."""
    out = []
    variants = [["Grid", "grid"], ["grid", "GRID", "Grid"], ["pv pool", " pv pool", "PV pool "], ["a", "A", "a", "b"]]
    for cid, cat in POOL[:4]:
        m = supported_metrics(cat)[0]
        S = lambda ns, gap=0, metric=m: {"t": "sub", "cid": cid, "metric": metric, "ns": ns, "start": None, "gap": gap}
        M = lambda gap=0: {"t": "msg", "cid": cid, "gap": gap}
        for names in variants:
            for mode in ("direct", "actor"):
                # back-to-back before the data; one after the other between messages; then one is closed
                out.append({"mode": mode, "comps": [[cid, cat]], "actions": [S(n) for n in names] + [M(-1), M(0), M(1), M(-1)]})
                acts = [S(names[0]), M(-1), M(0)]
                for n in names[1:]:
                    acts += [S(n, gap=1), M(0), M(-1)]
                acts += [dict(S(names[-1]), t="close", gap=0), M(0), M(-1), dict(S(names[0]), t="close", gap=1), M(0), M(-1)]
                out.append({"mode": mode, "comps": [[cid, cat]], "actions": acts})
    return out


def timezone_cases():
    """Messages stamped in non-UTC aware zones (fixed offsets, DST zones across the fall-back hour): the delivered
    timestamp must be the same INSTANT."""
    out = []
    for cid, cat in POOL[:4]:
        ms = supported_metrics(cat)
        S = lambda metric, ns="a", gap=0: {"t": "sub", "cid": cid, "metric": metric, "ns": ns, "start": None, "gap": gap}
        M = lambda gap=0: {"t": "msg", "cid": cid, "gap": gap}
        for mode in ("direct", "actor"):
            for t0 in (0, DST_END_S, 15724800):       # winter, end of DST in Berlin, July
                out.append({"mode": mode, "comps": [[cid, cat]], "t0_s": t0, "tz": {str(cid): ZONES}, "actions":
                            [S(ms[0])] + [M(-1 if k % 4 == 0 else 0) for k in range(7)] + [S(ms[1], gap=1)] + [M(0) for _ in range(5)]})
            out.append({"mode": mode, "comps": [[cid, cat]], "t0_s": DST_END_S, "tz": {str(cid): ["Europe/Berlin"]}, "actions":
                        [S(ms[0])] + [M(0) for _ in range(8)]})
    return out


def open_boundary_cases():
    """A second new subscription for a not yet streaming component g loop iterations after the first while the
    API takes `its` iterations (or virtual time) to open the stream; duplicates and other components meanwhile."""
    out = []
    for cid, cat in POOL[:4]:
        ms = supported_metrics(cat)
        S = lambda metric, ns="a", gap=0, c=cid: {"t": "sub", "cid": c, "metric": metric, "ns": ns, "start": None, "gap": gap}
        M = lambda gap=0: {"t": "msg", "cid": cid, "gap": gap}
        for mode in ("direct", "actor"):
            for its in (1, 2, 4, 8):
                for g in (0, 1, 2, 3, 5, 9):
                    out.append({"mode": mode, "comps": [[cid, cat]], "open": {str(cid): [[its, 0], [its, 0], [1, 0]]}, "actions": [
                        S(ms[0]), S(ms[1], gap=g), M(1), S(ms[0], gap=1), M(-1), M(0), S(ms[2], ns="b", gap=g), M(0), M(-1)]})
            # the API answers after 0.5 s of virtual time; requests / messages arrive while it is pending
            out.append({"mode": mode, "comps": [[cid, cat], [15, "METER"]], "open": {str(cid): [[0, 2], [3, 1], [0, 0]], "15": [[2, 0]]}, "actions": [
                S(ms[0]), M(-1), S(ms[1], gap=0), S("ACTIVE_POWER", c=15, gap=0), M(-1), S(ms[1], gap=0), S(ms[2], gap=1), M(-1),
                M(-4), M(0), {"t": "msg", "cid": 15, "gap": 0}, M(-1)]})
    return out


def gen_fault_case(rng):
    """The API client fails while a request is handled (the real actor restarts after RESTART_DELAY) or while
    a handler starts (run_forever retries); already served requests are repeated and new ones added around it."""
    comps = sorted(rng.sample(POOL, rng.choice([1, 2])))
    mode = "actor" if rng.random() < 0.8 else "direct"
    case = {"mode": mode, "comps": [list(c) for c in comps], "actions": [], "faults": {}}
    favs = {c: rng.sample(supported_metrics(k), 2) for c, k in comps}
    gap = lambda: rng.choice([0, 0, 1, 2, -1, -2, -9, -10])
    S = lambda cid, metric, ns="a": {"t": "sub", "cid": cid, "metric": metric, "ns": ns, "start": None, "gap": gap()}
    U = lambda: {"t": "sub", "cid": rng.choice([1, 99]), "metric": "ACTIVE_POWER", "ns": "a", "start": None, "gap": gap()}
    M = lambda cid: {"t": "msg", "cid": cid, "gap": gap()}
    acts = []
    served = []
    ncomp_calls = 1            # components() is read on the first request and for every unknown id
    fail_calls = []
    for _ in range(rng.randint(5, 14)):
        r = rng.random()
        cid, cat = rng.choice(comps)
        if r < 0.35:
            acts.append(M(cid))
        elif r < 0.5 and served:
            acts.append(dict(rng.choice(served), gap=gap()))          # repeat of an already served request
        elif r < 0.7:
            ncomp_calls += 1
            if rng.random() < 0.7:
                fail_calls.append(ncomp_calls)
            acts.append(U())                                           # unknown id: components() is re-read
        else:
            a = S(cid, rng.choice(favs[cid]), rng.choice("ab"))
            acts.append(a)
            served.append(a)
    if rng.random() < 0.35:
        # the component list cannot be read at first: the first j requests fail (the cache stays empty), the actor
        # restarts each time; the SAME requests are sent again later (during the restart delay or after it)
        j = rng.choice([1, 1, 2, 3])
        fail_calls += list(range(1, j + 1))
        early = [a for a in acts if a["t"] == "sub"][:j]
        for a in early:
            acts.append(dict(a, gap=rng.choice([0, 1, -1, -9, -10])))
            if rng.random() < 0.6:
                acts.append(M(a["cid"] if a["cid"] in dict(comps) else comps[0][0]))
        ncomp_calls += len(early)
    case["actions"] = acts
    case["faults"]["components"] = sorted(set(fail_calls))
    if rng.random() < 0.4:
        cid = rng.choice(comps)[0]
        case["faults"]["data"] = {str(cid): sorted(rng.sample([1, 2, 3], rng.choice([1, 2])))}
    if rng.random() < 0.35:
        case["open"] = gen_open(rng, comps)
    return case


def fault_boundary_cases():
    out = []
    for cid, cat in POOL[:4]:
        m1, m2 = supported_metrics(cat)[0], supported_metrics(cat)[-1]
        S = lambda metric, ns="a", gap=0, c=cid: {"t": "sub", "cid": c, "metric": metric, "ns": ns, "start": None, "gap": gap}
        M = lambda gap=0: {"t": "msg", "cid": cid, "gap": gap}
        for wait in (0, -1, -9, -12):
            # served request; an unknown id makes components() fail -> the actor restarts; the served request
            # is repeated (during the restart delay or after it), then a new one is added
            out.append({"mode": "actor", "comps": [[cid, cat]], "faults": {"components": [2]}, "actions": [
                S(m1), M(-1), M(0), S(m1, c=99, gap=0), M(1), S(m1, gap=wait), M(-10), M(0), S(m2, gap=1), M(-1), M(0)]})
        # first request fails, repeated later; the handler's first start fails twice
        out.append({"mode": "actor", "comps": [[cid, cat]], "faults": {"components": [1], "data": {str(cid): [1, 2]}}, "actions": [
            S(m1), M(-10), S(m1, gap=0), M(-1), M(-4), M(-5), S(m1, gap=0), M(0), S(m2, ns="b", gap=0), M(-1)]})
        out.append({"mode": "direct", "comps": [[cid, cat]], "faults": {"components": [2], "data": {str(cid): [1]}}, "actions": [
            S(m1), M(-1), S(m1, c=99), M(-5), S(m1), M(0), M(-1)]})
        # the API is unreachable for the first lookups: the first requests fail, the actor restarts, the identical
        # requests are sent again (right away, during the restart delay, after it), then data
        for mode in ("actor", "pipeline", "direct"):
            for nfail in (1, 2):
                for wait in (0, -1, -9, -12):
                    out.append({"mode": mode, "comps": [[cid, cat]], "faults": {"components": list(range(1, nfail + 1))}, "actions":
                                [S(m1), S(m2, ns="b", gap=1)][:max(nfail, 1)] + [S(m1, gap=wait), S(m2, ns="b", gap=0), M(-12), M(0), S(m1, gap=0), M(-1)]})
    return out


def gen_close_case(rng):
    """Several streams on one component; a consumer closes and removes one of them mid-stream."""
    cid, cat = rng.choice(POOL[:4])
    mode = "actor" if rng.random() < 0.4 else "direct"
    n = rng.choice([2, 3, 3, 4])
    metrics = supported_metrics(cat)
    subs = []
    while len(subs) < n:
        a = {"t": "sub", "cid": cid, "metric": rng.choice(metrics[:4] if rng.random() < 0.5 else metrics),
             "ns": rng.choice(["a", "A", "b", "a "]), "start": None, "gap": rng.choice([0, 0, 1, -1])}
        if descr(a) not in [descr(x) for x in subs]:
            subs.append(a)
    gap = lambda: rng.choice([0, 0, 1, 2, 3, -1])
    M = lambda: {"t": "msg", "cid": cid, "gap": gap()}
    acts = list(subs) + [M() for _ in range(rng.randint(1, 3))]
    victim = rng.choice(subs)
    acts.append(dict(victim, t="close", gap=gap()))
    acts += [M() for _ in range(rng.randint(1, 3))]
    r = rng.random()
    if r < 0.3:      # an unrelated new subscription restarts the handler afterwards
        acts.append({"t": "sub", "cid": cid, "metric": rng.choice(metrics), "ns": "c", "start": None, "gap": gap()})
        acts += [M(), M()]
    elif r < 0.45:   # the closed one is requested again
        acts.append(dict(victim, gap=gap()))
        acts.append(M())
    elif r < 0.6 and len(subs) > 2:
        other = rng.choice([x for x in subs if x is not victim])
        acts.append(dict(other, t="close", gap=gap()))
        acts += [M(), M()]
    return {"mode": mode, "comps": [[cid, cat]], "actions": acts}


def close_boundary_cases():
    """Every position in subscription order, 2 to 4 streams (same metric / different metrics)."""
    out = []
    for cid, cat in (POOL[0], POOL[2], POOL[1], POOL[3]):
        ms = supported_metrics(cat)
        for n in (2, 3, 4):
            for same_metric in (False, True):
                subs = [{"t": "sub", "cid": cid, "metric": ms[0] if same_metric else ms[i], "ns": "abcd"[i], "start": None, "gap": 0}
                        for i in range(n)]
                for pos in range(n):
                    for g in (0, 1, -1):
                        M = lambda gap=0: {"t": "msg", "cid": cid, "gap": gap}
                        out.append({"mode": "direct" if (pos + n) % 2 else "actor", "comps": [[cid, cat]], "actions":
                                    subs + [M(-1), M(0), dict(subs[pos], t="close", gap=g), M(0), M(1), M(-1)]})
            if cat != "METER":
                break
    return out


def shrink_case(case):
    acts = case["actions"]
    for i in range(len(acts)):
        yield {**case, "actions": acts[:i] + acts[i + 1:], "same_ts": [], "special": []}
        if case.get("special") and acts[i]["t"] != "msg":
            yield {**case, "actions": acts[:i] + acts[i + 1:], "same_ts": []}
    if case.get("mode") == "actor":
        yield {**case, "mode": "direct"}
    if case.get("suspend"):
        yield {k: v for k, v in case.items() if k != "suspend"}
    if case.get("tz"):
        yield {k: v for k, v in case.items() if k not in ("tz", "t0_s")}
        for c, v in case["tz"].items():
            if len(v) > 1:
                for z in v:
                    yield {**case, "tz": {**case["tz"], c: [z]}}
    if case.get("mode") == "pipeline":
        yield {**case, "mode": "actor"}
    if case.get("special"):
        sp = case["special"]
        for i in range(len(sp)):
            yield {**case, "special": sp[:i] + sp[i + 1:]}
    if case.get("open"):
        yield {k: v for k, v in case.items() if k != "open"}
        for c, v in case["open"].items():
            if any(x != [0, 0] for x in v[1:]):
                yield {**case, "open": {**case["open"], c: [v[0]] + [[0, 0] for _ in v[1:]]}}
            if v[0][1]:
                yield {**case, "open": {**case["open"], c: [[v[0][0], 0]] + v[1:]}}
            if v[0][0] > 1:
                yield {**case, "open": {**case["open"], c: [[v[0][0] - 1, v[0][1]]] + v[1:]}}
    if case.get("faults", {}).get("data"):
        yield {**case, "faults": {k: v for k, v in case["faults"].items() if k != "data"}}
    if case.get("same_ts"):
        yield {**case, "same_ts": []}
    used = {a["cid"] for a in acts}
    if any(c not in used for c, _ in case["comps"]):
        yield {**case, "comps": [c for c in case["comps"] if c[0] in used]}
    for i, a in enumerate(acts):
        for g in (-1, 0):
            if a.get("gap", 0) != g and (a.get("gap", 0) > 0 or g == -1):
                yield {**case, "actions": acts[:i] + [{**a, "gap": g}] + acts[i + 1:]}


def labels_of(case, obs):
    log = obs["log"]
    out = [f"mode={case.get('mode', 'direct')}", f"actions={min(len(case['actions']), 16)}"]
    out += sorted({f"cat={k}" for _, k in case["comps"]})
    seen, dup = set(), False
    for a in case["actions"]:
        if a["t"] == "sub":
            if descr(a) in seen:
                dup = True
            seen.add(descr(a))
    if dup:
        out.append("duplicate_request")
    cids = {c for c, _ in case["comps"]}
    if any(a["t"] == "sub" and a["cid"] not in cids for a in case["actions"]):
        out.append("unknown_component")
    if case.get("same_ts"):
        out.append("repeated_timestamp")
    zones = {z for v in case.get("tz", {}).values() for z in v if z != "UTC"}
    out += sorted(f"zone={z}" for z in zones)
    if zones and case.get("t0_s") == DST_END_S:
        out.append("across_dst_end")
    delivered = {v for got in obs["streams"].values() for _, v in got}
    inv_tok = {v: k for k, v in TOKENS.items()}
    out += sorted({f"delivered_{inv_tok[v]}" for v in delivered if v in inv_tok})
    nss = {}
    for a in case["actions"]:
        if a["t"] == "sub":
            nss.setdefault((a["cid"], a["metric"], a["ns"].strip().casefold()), set()).add(a["ns"])
    if any(len(v) > 1 for v in nss.values()):
        out.append("namespaces_differ_only_in_case_or_space")
    catd = dict((c, k) for c, k in case["comps"])
    if any(a["t"] == "sub" and a["cid"] in catd and not supported(catd[a["cid"]], a["metric"]) for a in case["actions"]):
        out.append("invalid_metric_request")
    # hand-over shapes, read off the recorded trace
    inflight, buffered, pending_start = {}, {}, {}
    recv = set()
    lab = set()
    last_add = {}
    for e in log:
        if e[0] == "recv":
            recv.add(e[1])
        elif e[0] == "api":
            if e[1] in recv:
                buffered[e[1]] = buffered.get(e[1], 0) + 1
            else:
                lab.add("msg_before_receiver_exists")
        elif e[0] == "take":
            buffered[e[1]] = buffered.get(e[1], 0) - 1
            inflight[e[1]] = inflight.get(e[1], 0) + 1
        elif e[0] == "enq":
            inflight.clear()
        elif e[0] == "add":
            c = e[1]
            if e[2] == last_add.get(c):
                pass
            if inflight.get(c, 0) > 0:
                lab.add("add_while_task_in_flight")
            if buffered.get(c, 0) > 0:
                lab.add("add_while_msg_buffered")
            if pending_start.get(c):
                lab.add("add_before_previous_handler_started")
            if c in cids:
                pending_start[c] = True
        elif e[0] == "hstart":
            pending_start[e[1]] = False
        elif e[0] == "hcrash":
            lab.add("handler_crash")
    opening = set()
    for j, e in enumerate(log):
        if e[0] == "dcall":
            opening.add(e[1])
            if j + 1 < len(log) and log[j + 1][0] not in ("recv", "datafail"):
                lab.add("opening_call_suspends")
        elif e[0] in ("recv", "datafail"):
            opening.discard(e[1])
        elif e[0] == "dcancel":
            opening.discard(e[1])
            lab.add("handler_cancelled_while_opening")
        elif e[0] == "add" and e[1] in opening:
            lab.add("request_while_opening")
        elif e[0] == "api" and e[1] in opening:
            lab.add("msg_while_opening")
    if sum(1 for e in log if e[0] == "dcancel") > 1:
        lab.add("cancelled_while_opening_twice")
    if any(e[0] == "restart" for e in log):
        lab.add("actor_restart")
        if any(e[0] == "add" for e in log[max(i for i, e in enumerate(log) if e[0] == "restart"):]):
            lab.add("request_after_restart")
    if any(e[0] == "addfail" for e in log):
        lab.add("add_metric_api_fault")
        failed = {}
        for j, e in enumerate(log):
            if e[0] == "addfail":
                failed[e[2]] = j
            elif e[0] == "req" and e[2] in failed:
                lab.add("failed_request_sent_again")
            elif e[0] == "add" and e[2] in failed and e[1] in cids:
                lab.add("failed_request_served_on_repeat")
    if any(e[0] == "datafail" for e in log):
        lab.add("handler_api_fault")
    order = {}
    for e in log:
        if e[0] == "add" and e[2] not in order.setdefault(e[1], []):
            order[e[1]].append(e[2])
        elif e[0] == "close":
            for c, keys in order.items():
                if e[1] in keys and len(keys) > 1:
                    pos = keys.index(e[1])
                    lab.add("closed_first" if pos == 0 else "closed_last" if pos == len(keys) - 1 else "closed_middle")
            lab.add("channel_closed")
    out += sorted(lab)
    if sum(len(v) for v in obs["streams"].values()) > 0:
        out.append("samples_delivered")
    return out


class DSStream(Stream):
    name = "trace"
    coq_header = HEADER
    n_quick = 1100
    n_fault_quick, n_fault_thorough = 400, 6000
    n_close_quick, n_close_thorough = 300, 5000
    n_thorough = 30000
    scope_quick = 3
    scope_thorough = 4

    def gen(self, rng, tier):
        yield from boundary_cases()
        yield from all_metrics_cases()
        yield from fault_boundary_cases()
        yield from close_boundary_cases()
        yield from open_boundary_cases()
        yield from special_value_cases()
        yield from timezone_cases()
        yield from namespace_cases()
        quick = tier == "quick"
        for _ in range(self.n_fault_quick if quick else self.n_fault_thorough):
            yield gen_fault_case(rng)
        for _ in range(self.n_close_quick if quick else self.n_close_thorough):
            yield gen_close_case(rng)
        yield from small_scope(self.scope_quick if quick else self.scope_thorough,
                               gaps=(0, 1, -1) if quick else (0, 1, 2, -1))
        for _ in range(self.n_quick if quick else self.n_thorough):
            yield gen_case(rng, 12 if rng.random() < 0.8 else 20, unsupported=rng.random() < 0.2)

    def run_impl(self, case):
        return run_case(case)

    def to_coq(self, case, obs):
        return case_term(case, obs)

    def show_term(self, case, obs):
        return show_term(case, obs)

    def oracle(self, case, obs):
        return oracle(case, obs)

    def shrink(self, case):
        return shrink_case(case)

    def key(self, case, obs):
        if sum(len(v) for v in obs["streams"].values()) == 0:
            return None
        return json.dumps([case["comps"], case["actions"], case.get("mode"), case.get("same_ts"), case.get("faults"), case.get("open"), case.get("special"), case.get("tz"), case.get("t0_s")], sort_keys=True)

    def labels(self, case, obs):
        return labels_of(case, obs)


# ----------------------------------------------------------------------------- extraction tables
TABLE_HEADER = """From Verif Require Import model.DataSourcing.
""" + MK + """(* (category, metric index, message, what the code's extractor returned: Some value | None = no extractor) *)
Definition check (c : category * Z * msg * option Z) : bool :=
  let '(cat, mt, m, r) := c in
  match r with
  | Some v => supported cat mt && (snd (sample_of (mkN mt 0) m) =? v)
  | None => negb (supported cat mt)
  end.
"""


class TableStream(Stream):
    """The per-category metric extraction maps, entry by entry (finite, complete)."""
    name = "table"
    coq_header = TABLE_HEADER

    def gen(self, rng, tier):
        for cat in CATS:
            for m in metric_names():
                yield {"cat": cat, "metric": m}

    def run_impl(self, case):
        I = _imports()
        src = I.MicrogridApiSource(I.ChannelRegistry(name="t"))
        msg = build_msg(I, case["cat"], 3, 7, 5_000_000)
        try:
            f = src._get_data_extraction_method(I.ComponentCategory[case["cat"]], I.ComponentMetricId[case["metric"]])
        except KeyError:
            return {"value": None}
        v = f(msg)
        return {"value": int(v) if v == int(v) else repr(v)}

    def to_coq(self, case, obs):
        r = "None" if obs["value"] is None else f"(Some {cZ(obs['value'])})" if isinstance(obs["value"], int) else "(Some (-1))"
        return f"({CATC[case['cat']]}, {metric_index(case['metric'])}, (mk 5000000 {cZ(msg_value(3, 7, 0))}), {r})"

    def oracle(self, case, obs):
        # "that metric's value": the extractor must read the metric's own field
        want = msg_value(3, 7, metric_index(case["metric"])) if supported(case["cat"], case["metric"]) else None
        if want is not None and obs["value"] != want:
            return [{"what": f"value: extractor of {case['metric']} for {case['cat']} returned {obs['value']}, the field holds {want}", "finding": None}]
        return []

    def key(self, case, obs):
        return None if obs["value"] is None else json.dumps(case, sort_keys=True)

    def labels(self, case, obs):
        return [f"cat={case['cat']}", "has_extractor" if obs["value"] is not None else "no_extractor"]


# ----------------------------------------------------------------------------- production wiring: request bursts
PIPE_HEADER = """From Verif Require Import gen.DataSourcing model.DataSourcing.
(* (capacity of the request receiver the real _DataPipeline created, [(burst size, indices of the requests of the
   burst that were served, in order)]): the capacity is the translated `limit=` keyword and every burst,
   issued back to back before the actor ran, went through a drop-oldest FIFO of that capacity *)
Definition check (c : Z * list (nat * list nat)) : bool :=
  let '(cap, bursts) := c in
  (cap =? data_sourcing_request_limit) &&
  forallb (fun b => list_eqb Nat.eqb (req_burst (Z.to_nat cap) [] (seq 0 (fst b))) (snd b)) bursts.
"""


def pipeline_requests():
    """Distinct valid requests, as many as needed: every supported metric of four components x namespaces."""
    out = []
    for ns in range(12):
        for cid, cat in POOL[:4]:
            for m in supported_metrics(cat):
                out.append({"t": "sub", "cid": cid, "metric": m, "ns": f"n{ns}", "start": None, "gap": 0})
    return out


def expand_pipeline(case):
    """bursts [n1, n2, ...] -> actions: n_i requests back to back, then everything settles and data flows."""
    reqs = pipeline_requests()
    order = list(range(len(reqs)))
    import random as _r
    _r.Random(case.get("shuffle", 0)).shuffle(order)
    acts, bursts, pos = [], [], 0
    for n in case["bursts"]:
        idx = order[pos:pos + n]
        pos += n
        bursts.append([descr(reqs[i]) for i in idx])
        for j, i in enumerate(idx):
            acts.append(dict(reqs[i], gap=(-2 if j == 0 and acts else 0)))
        for cid, _ in POOL[:4]:
            acts.append({"t": "msg", "cid": cid, "gap": -2 if cid == POOL[0][0] else 0})
    return {"mode": "pipeline", "comps": [list(c) for c in POOL[:4]], "actions": acts, "debug_log": case.get("debug_log", False)}, bursts


class PipelineStream(Stream):
    """Bursts of requests through the real `_DataPipeline._data_sourcing_request_sender()` wiring."""
    name = "pipeline"
    coq_header = PIPE_HEADER

    def gen(self, rng, tier):
        sizes = [[1], [50, 51], [116], [500], [499, 3], [501], [30, 540]]
        if tier != "quick":
            sizes += [[rng.randint(1, 500)] for _ in range(10)] + [[rng.randint(2, 250), rng.randint(2, 250)] for _ in range(6)] + [[520, 60], [600]]
        for i, b in enumerate(sizes):
            yield {"bursts": b, "shuffle": rng.randrange(1000)}

    def run_impl(self, case):
        full, bursts = expand_pipeline(case)
        obs = run_case(full)
        served_keys = [e[2] for e in obs["log"] if e[0] == "add"]
        served = []
        for ds in bursts:
            keys = [obs["keys"][d] for d in ds]
            served.append([keys.index(k) for k in served_keys if k in keys])
        # keep the observation small: per-stream sample COUNTS and the oracle's verdict on the full observation
        bound = obs.get("req_bound", 0)
        in_domain = {d for ds in bursts if len(ds) <= bound for d in ds}
        hits = []
        for h in oracle(full, obs):
            m = [d for ds in bursts for d in ds if d in h["what"]]
            if h["what"].startswith(("request:", "stall:", "loss:")) and m and m[0] not in in_domain:
                continue      # a burst larger than the configured capacity is outside the property's domain
            hits.append(h)
        return {"req_limit": obs.get("req_limit", -1), "req_bound": bound, "served": served,
                "samples": sum(len(v) for v in obs["streams"].values()), "errors": obs["errors"], "oracle": hits[:5]}

    def to_coq(self, case, obs):
        bs = "; ".join(f"({n}%nat, [{'; '.join(f'{i}%nat' for i in sv)}])" if sv else f"({n}%nat, @nil nat)"
                       for n, sv in zip(case["bursts"], obs["served"]))
        return f"({cZ(obs['req_limit'])}, [{bs}])"

    def oracle(self, case, obs):
        out = list(obs["oracle"])
        if obs["errors"]:
            out.append({"what": f"driver: {obs['errors'][0]}", "finding": None})
        return out

    def key(self, case, obs):
        return json.dumps(case, sort_keys=True)

    def labels(self, case, obs):
        out = []
        for n, sv in zip(case["bursts"], obs["served"]):
            out.append("burst<=50" if n <= 50 else "burst_51..capacity" if n <= obs["req_bound"] else "burst>capacity")
            if len(sv) < n:
                out.append("requests_dropped")
        return out

    def shrink(self, case):
        b = case["bursts"]
        for i in range(len(b)):
            if len(b) > 1:
                yield {**case, "bursts": b[:i] + b[i + 1:]}
            for n in (b[i] // 2, b[i] - 10, b[i] - 1):
                if 0 < n < b[i]:
                    yield {**case, "bursts": b[:i] + [n] + b[i + 1:]}
