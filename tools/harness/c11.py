"""C11 — distributed power = regular target + operating-point target, in bounds."""
from harness import powermanager as PMH
from harness import powermanager2 as PMH2
from harness import powermanagerN as PMHN

ID = "C11"
PROPS = "props/C11.v"
NEEDS = ["check_exclusion_bounds_overlap", "adjust_exclusion_bounds", "clamp_to_bounds", "max_proposal_age_us", "max_proposal_age_op_us"]


def streams():
    return [PMH.PMStream(), PMH2.BurstStream(), PMHN.GroupsStream()]

ASSUMPTIONS = [
    "asyncio / frequenz.channels runtime: select() handles one message at a time and a handler (target calculation + request + reports) is not interleaved with another one; the `bursts` stream injects events back to back, records the order in which the handlers of the select loop and of the bounds-tracker task actually ran and checks (trace problems are oracle hits) that every handler is one model step",
    "system bounds contain zero (lower <= 0 <= upper), as for battery pools",
    "Timer(1 s, SkipMissedAndDrift) fires drop_old_proposals; the recorded tick times are replayed through the model",
]

META = {
    "technique": "Coq proof (state invariant over all event histories by induction; C03 envelope reused for shifted bounds) + trace correspondence of the real PowerManagingActor on virtual time vs the model evaluated in Coq",
    "level_text": "Machine-checked theorem (closed under the global context): for every history of regular/operating-point proposals, zero-containing bounds updates, distribution results and expiry ticks, every request of the model equals the sum of the two stored (= reported) targets and lies within the inclusion bounds in force; the same per group for one actor serving any number of component groups (C11_multi_group_sum_and_bounds), whose groups influence each other only through the shared partial-failure flag (C11_groups_independent). The model is the repaired `_calculate_target_power` (fix: commit for F7; the pre-fix behaviour is refuted by a witness theorem). Tie: the real actor is run through its channels under async_solipsism on hundreds of generated event histories (stream `actor`: one event at a time, results answering older requests, bounds with earlier/equal/later data timestamps, independent subscription priorities; stream `groups`: three component groups served by one actor, interleaved events, shared actor identities, shared partial-failure flag and expiry timer, model twin PowerManagerN.v; stream `bursts`: back-to-back injection, recorded handler order, report subscriptions for several priorities per group arriving at any time) and every Request and _Report (targets and bounds, per subscribed priority) is compared with the model inside Coq; the property is also judged directly on the recorded requests/reports.",
    "level_note": "Trusted: Coq kernel + vm_compute, translator (bounds functions, max proposal ages), harness (streams `actor`/`bursts`: the pool feeding the bounds tracker is replaced by a channel; stream `groups`: the real _add_system_bounds_tracker with a recording pool factory in place of the data pipeline), asyncio/frequenz.channels scheduling (events are injected one at a time). Exact-boundary expiry (age == 60 s within 2 us) is excluded from the correspondence because float subtraction is not modelled.",
}
