"""C06: formula evaluator synchronisation (FormulaEvaluator.apply / _synchronize_metric_timestamps,
FormulaEngine._run, FormulaEngine3Phase._run).

Implementation side: real `FormulaEngine`s built with the real `FormulaBuilder` (formula = sum of
all its metrics) over real `Broadcast` channels, driven on `async_solipsism` virtual time by a
scripted schedule (who sends when, how long the engine may run in between, when the consumer
subscribes).  Sample k of stream i carries the value (k+1)*256^i, so the emitted sum tells which
sample of every stream went into it.  Model side: coq/model/EvalSync.v (a function of the stream
CONTENTS only).

The iteration order of the `set` returned by `asyncio.wait` (arbitrary in CPython: tasks hash by
address) is an input of the model.  For the cases whose result depends on it (streams off the
common grid) the harness fixes it: `asyncio.wait` is wrapped so that the returned `done` set
iterates in the order the case prescribes.  Grid cases are also run with the untouched
`asyncio.wait`, the model then gets an arbitrary order.
"""
from __future__ import annotations

import asyncio
import json
from datetime import datetime, timedelta, timezone

from lib.core import Stream, cZ, clist

E = datetime(2023, 1, 1, tzinfo=timezone.utc)
TICK_US = 250_000          # one timestamp tick of a case = 250 ms
BASE = 256                 # value of sample k of stream i = (k+1) * BASE**i
CAP = 40                   # backlog bound the generator keeps (receiver limit is 50)


def _imports():
    import async_solipsism
    from frequenz.channels import Broadcast
    from frequenz.quantities import Quantity
    from frequenz.sdk.timeseries import Sample
    from frequenz.sdk.timeseries.formula_engine._formula_engine import (
        FormulaBuilder, FormulaEngine, FormulaEngine3Phase)
    return async_solipsism, Broadcast, Quantity, Sample, FormulaBuilder, FormulaEngine, FormulaEngine3Phase


# ----------------------------------------------------------------------------- controlled set order
class _OrderedSet(set):
    """A set whose iteration order is prescribed (all other behaviour is set's)."""

    def __init__(self, items):
        super().__init__(items)
        self._order = list(items)

    def __iter__(self):
        return iter(self._order)


class WaitOrder:
    """Context manager: wrap asyncio.wait so that `done` iterates in a prescribed order.

    orders: {engine index: [perm of local stream indices, ...]} (round r uses entry r mod len);
    tasks are recognised by their names "e<engine>s<local index>" (the metric names)."""

    def __init__(self, orders):
        self.orders = orders
        self.rounds = {}

    def __enter__(self):
        self._orig = asyncio.wait
        orig = self._orig
        me = self

        async def wait(fs, *, timeout=None, return_when=asyncio.ALL_COMPLETED):
            fs = list(fs)
            done, pending = await orig(fs, timeout=timeout, return_when=return_when)
            if me.orders is None or pending:
                return done, pending
            names = {}
            for t in done:
                nm = t.get_name() if hasattr(t, "get_name") else ""
                if not (nm.startswith("e") and "s" in nm and nm[1:].replace("s", "").isdigit()):
                    return done, pending
                e, s = nm[1:].split("s")
                names[t] = (int(e), int(s))
            engs = {e for e, _ in names.values()}
            if len(engs) != 1:
                return done, pending
            e = engs.pop()
            if str(e) not in me.orders:
                return done, pending
            r = me.rounds.get(e, 0)
            me.rounds[e] = r + 1
            perm = me.orders[str(e)][r % len(me.orders[str(e)])]
            by_idx = {s: t for t, (_, s) in names.items()}
            return _OrderedSet([by_idx[i] for i in perm]), pending

        asyncio.wait = wait
        return self

    def __exit__(self, *a):
        asyncio.wait = self._orig


# ----------------------------------------------------------------------------- implementation driver
def value_of(i_local, k):
    return (k + 1) * BASE ** i_local


def run_engines(case):
    """case: {"streams": [[tick,...],...] (global stream list),
              "eng": [[global stream ids],...]  one entry = plain engine; three = 3-phase engine over them,
              "sched": [["s", g] | ["y", k] | ["p"] | ["c"]],
              "orders": None | {"<engine>": [perm,...]}}
    Returns {"out": [...], "max_backlog": int, "left": [...]}.  For a plain engine an output is
    [tick, value]; for a 3-phase engine [tick, v1, v2, v3]."""
    async_solipsism, Broadcast, Quantity, Sample, FormulaBuilder, FormulaEngine, FormulaEngine3Phase = _imports()
    three = len(case["eng"]) == 3
    res = {}

    async def main():
        chans = [Broadcast[Sample[Quantity]](name=f"g{g}") for g in range(len(case["streams"]))]
        rxs = [c.new_receiver(limit=50) for c in chans]
        snd = [c.new_sender() for c in chans]
        local = {}
        engines = []
        for e, ids in enumerate(case["eng"]):
            if case.get("resampled"):
                # the second entry point: ResampledFormulaBuilder.from_string over a channel registry
                import frequenz.sdk.microgrid  # noqa: F401  (breaks an import cycle of the package)
                from frequenz.client.microgrid import ComponentMetricId
                from frequenz.sdk._internal._channels import ChannelRegistry
                from frequenz.sdk.microgrid._data_sourcing import ComponentMetricRequest
                from frequenz.sdk.timeseries.formula_engine._resampled_formula_builder import ResampledFormulaBuilder
                reg = ChannelRegistry(name="reg")
                reqs = Broadcast(name="requests")
                _keep = reqs.new_receiver(limit=1000)  # noqa: F841
                rb = ResampledFormulaBuilder("ns", f"f{e}", reg, reqs.new_sender(), ComponentMetricId.ACTIVE_POWER, Quantity)
                engines.append(rb.from_string(" + ".join(f"#{g + 1}" for g in ids), nones_are_zeros=False))
                for li, g in enumerate(ids):
                    local[g] = li
                    name = ComponentMetricRequest("ns", g + 1, ComponentMetricId.ACTIVE_POWER, None).get_channel_name()
                    ch = reg.get_or_create(Sample[Quantity], name)
                    snd[g] = ch.new_sender()
                    rxs[g] = rb._metric_fetchers[f"#{g + 1}"].stream   # pylint: disable=protected-access
                continue
            b = FormulaBuilder(f"f{e}", Quantity)
            for li, g in enumerate(ids):
                local[g] = li
                if li:
                    b.push_oper("+")
                b.push_metric(f"e{e}s{li}", rxs[g], nones_are_zeros=False)
            engines.append(b.build())
        top = FormulaEngine3Phase("f3", Quantity, tuple(engines)) if three else engines[0]
        out_rx = None
        got = []
        sent = [0] * len(chans)
        max_backlog = 0
        nones = case.get("nones") or []       # [[stream, k], ...]: samples whose value is None
        for act in case["sched"] + [["c"], ["p"]]:
            if act[0] == "s":
                g = act[1]
                k = sent[g]
                if k < len(case["streams"][g]):
                    t = E + timedelta(microseconds=TICK_US * case["streams"][g][k])
                    if case.get("tz_hours"):       # the same instant, stamped in another time zone
                        t = t.astimezone(timezone(timedelta(hours=case["tz_hours"])))
                    v = None if [g, k] in nones else Quantity(float(value_of(local[g], k)))
                    await snd[g].send(Sample(t, v))
                    sent[g] += 1
                    max_backlog = max(max_backlog, len(getattr(rxs[g], "_q", ())))  # pylint: disable=protected-access
            elif act[0] == "y":
                for _ in range(act[1]):
                    await asyncio.sleep(0)
            elif act[0] == "p":
                await asyncio.sleep(1.0)      # virtual time: returns once every task is blocked
            elif act[0] == "w":
                await asyncio.sleep(float(act[1]))   # let (virtual) time pass: an input stalls
            elif act[0] == "c":
                if out_rx is None:
                    if case.get("out_size"):
                        # a consumer with a small buffer that reads continuously
                        out_rx = top.new_receiver(max_size=case["out_size"])

                        async def reader(rx=out_rx):
                            async for msg in rx:
                                got.append(msg)
                        asyncio.create_task(reader())
                    else:
                        out_rx = top.new_receiver(max_size=100000)
        out = []
        while not case.get("out_size") and len(out_rx._q):  # pylint: disable=protected-access
            got.append(out_rx.consume() if await out_rx.ready() else None)
        for m in got:
            us = (m.timestamp - E) // timedelta(microseconds=1)
            tick = us // TICK_US if us % TICK_US == 0 else us / TICK_US   # off the tick grid: kept as a float
            if three:
                out.append([tick] + [None if v is None else int(v.base_value) for v in (m.value_p1, m.value_p2, m.value_p3)])
            else:
                out.append([tick, None if m.value is None else int(m.value.base_value)])
        res["out"] = out
        res["max_backlog"] = max_backlog
        res["left"] = [len(getattr(r, "_q", ())) + (len(case["streams"][g]) - sent[g]) for g, r in enumerate(rxs)]  # pylint: disable=protected-access
        for t in asyncio.all_tasks():
            if t is not asyncio.current_task():
                t.cancel()
        await asyncio.sleep(0)

    loop = async_solipsism.EventLoop()
    try:
        with WaitOrder(case.get("orders")):
            loop.run_until_complete(main())
    finally:
        loop.close()
    return res


def decode(value, n):
    """indices k of the samples of streams 0..n-1 that were summed into [value]"""
    ks = []
    for _ in range(n):
        ks.append(value % BASE - 1)
        value //= BASE
    return ks if value == 0 else None


# ----------------------------------------------------------------------------- Coq rendering
HEADER = """From Verif Require Import model.EvalSync.
(* case: per engine (streams, set orders per round), expected output.  One engine: the plain
   FormulaEngine; three engines: FormulaEngine3Phase over them. *)
Definition check (c : list (list (list sample) * list (list nat)) * list (Z * list Z)) : bool :=
  let '(engs, exp) := c in
  match engs with
  | [(ss, ords)] =>
      list_eqb (fun a b => (fst a =? fst b) && listZ_eqb (snd a) (snd b))
               (map (fun o => (fst o, [snd o])) (engine_of ss ords)) exp
  | [(s1, o1); (s2, o2); (s3, o3)] =>
      let a := engine_of s1 o1 in let b := engine_of s2 o2 in let c := engine_of s3 o3 in
      list_eqb (fun a b => (fst a =? fst b) && listZ_eqb (snd a) (snd b))
               (map (fun o => let '(t, (p, q, r)) := o in (t, [p; q; r]))
                    (zip3 (S (length a + length b + length c)) a b c)) exp
  | _ => false
  end.
"""


def c_stream(case, g, li):
    if not case["streams"][g]:
        return "(@nil sample)"
    nones = case.get("nones") or []
    return "[" + "; ".join(f"({cZ(t * TICK_US)}, {cZ(-1 if [g, k] in nones else value_of(li, k))})"
                           for k, t in enumerate(case["streams"][g])) + "]"


def c_engine(case, e):
    ids = case["eng"][e]
    ss = "[" + "; ".join(c_stream(case, g, li) for li, g in enumerate(ids)) + "]"
    orders = case.get("orders")
    if orders is None or str(e) not in orders:
        ords = "(@nil (list nat))"
    else:
        rounds = max([len(case["streams"][g]) for g in ids] + [0]) + 2
        lst = orders[str(e)]
        ords = "[" + "; ".join("[" + "; ".join(f"{i}%nat" for i in lst[r % len(lst)]) + "]" for r in range(rounds)) + "]"
    return f"({ss}, {ords})"


def case_term(case, obs):
    engs = "[" + "; ".join(c_engine(case, e) for e in range(len(case["eng"]))) + "]"
    exp = "[" + "; ".join(f"({cZ(int(o[0] * TICK_US))}, {clist([-1 if v is None else v for v in o[1:]])})" for o in obs["out"]) + "]"
    if not obs["out"]:
        exp = "(@nil (Z * list Z))"
    return f"({engs}, {exp})"


def show_term(case, obs):
    es = [c_engine(case, e) for e in range(len(case["eng"]))]
    if len(es) == 1:
        return f"let '(ss, ords) := {es[0]} in engine_of ss ords"
    a, b, c = (f"(let '(ss, ords) := {x} in engine_of ss ords)" for x in es)
    return f"zip3 1000 {a} {b} {c}"


# ----------------------------------------------------------------------------- generation
def gen_grid_streams(rng, n, d, maxlen):
    base = rng.randrange(-40, 40)
    offs = [rng.randint(-3, 3) for _ in range(n)]
    out = []
    for o in offs:
        r = rng.random()
        ln = rng.randint(0, 4) if r < 0.05 else rng.randint(3, maxlen)
        out.append([base + d * (o + j) for j in range(ln)])
    return out


def perturb(rng, streams, d):
    """take some streams off the common grid: gaps, sub-step shifts, repeated timestamps"""
    kinds = []
    for _ in range(rng.randint(1, 3)):
        cand = [i for i, s in enumerate(streams) if len(s) >= 2]
        if not cand:
            break
        i = rng.choice(cand)
        s = streams[i]
        k = rng.choice(["gap", "shift", "dup", "latejump"])
        if k == "gap":
            del s[rng.randrange(0, min(len(s), 6))]
        elif k == "shift":
            j = rng.randrange(0, min(len(s), 5))
            delta = rng.choice([1, d - 1] if d > 1 else [1])
            streams[i] = s[:j] + [t + delta for t in s[j:]] if rng.random() < 0.5 else [t + delta for t in s[:j]] + s[j:]
            streams[i] = sorted(streams[i])
        elif k == "dup":
            j = rng.randrange(0, min(len(s), 6))
            s.insert(j, s[j])
        else:
            j = rng.randrange(1, len(s))
            streams[i] = s[:j] + [t + d * rng.randint(1, 3) for t in s[j:]]
        kinds.append(k)
    return kinds


def gen_sched(rng, streams, long_mode=False):
    """random interleaving of the per-stream send sequences + yields / full pumps / consumer start"""
    n = len(streams)
    left = [len(s) for s in streams]
    sent = [0] * n
    sched = []
    started = False
    style = rng.choice(["lockstep", "random", "bursty", "one_late"]) if not long_mode else "long"
    start_at = rng.choice([0, 0, rng.randint(0, max(1, sum(left)))])
    since = [0] * n
    late = rng.randrange(n)
    firsts = [s[0] if s else 0 for s in streams]
    steps = 0
    while sum(left):
        if not started and steps >= start_at:
            sched.append(["c"])
            started = True
        cand = [i for i in range(n) if left[i]]
        if style == "lockstep":
            i = min(cand, key=lambda j: (sent[j], j))
        elif style == "one_late":
            others = [j for j in cand if j != late]
            i = rng.choice(others) if others else late
        elif style == "bursty":
            i = cand[0] if rng.random() < 0.7 else rng.choice(cand)
            if rng.random() < 0.1:
                cand = cand[1:] + cand[:1]
        elif style == "long":
            front = [firsts[j] + sent[j] for j in range(n)]  # only relative positions matter
            mf = min(front[j] for j in cand)
            ok = [j for j in cand if front[j] - mf < 18 and since[j] < 9 and (started or sent[j] < 30)]
            if not ok:
                if not started:
                    sched.append(["c"])
                    started = True
                sched.append(["p"])
                since = [0] * n
                continue
            i = rng.choice(ok)
        else:
            i = rng.choice(cand)
        sched.append(["s", i])
        sent[i] += 1
        left[i] -= 1
        since[i] += 1
        steps += 1
        r = rng.random()
        if r < 0.25:
            sched.append(["y", rng.randint(1, 6)])
        elif r < 0.32:
            sched.append(["p"])
            since = [0] * n
    return sched


def gen_engine_case(rng, kind):
    n = rng.choice([1, 2, 2, 3, 3, 4, 5])
    d = rng.choice([1, 2, 4])
    if kind == "long":
        n = rng.choice([2, 3])
        base = rng.randrange(-40, 40)
        ln = rng.randint(60, 150)
        streams = [[base + rng.randint(-3, 3) + j for j in range(ln + rng.randint(-5, 5))] for _ in range(n)]
        streams = [[s[0] + j for j in range(len(s))] for s in streams]
        return {"kind": kind, "d": 1, "streams": streams, "eng": [list(range(n))],
                "sched": gen_sched(rng, streams, long_mode=True), "orders": None}
    if kind == "startup_gap":
        return gen_startup_gap_case(rng)
    if kind == "stall":
        return gen_stall_case(rng)
    streams = gen_grid_streams(rng, n, d, 40 if rng.random() < 0.15 else 14)
    case = {"kind": kind, "d": d, "streams": streams, "eng": [list(range(n))]}
    if kind == "offgrid":
        case["perturb"] = perturb(rng, streams, d)
        case["streams"] = streams
    if kind == "grid_realset":
        case["orders"] = None
        if rng.random() < 0.3:
            case["resampled"] = True                      # built by ResampledFormulaBuilder.from_string
            case["tz_hours"] = rng.choice([0, 1, 2, -5, 9])
    else:
        perms = []
        for _ in range(rng.randint(1, 4)):
            p = list(range(n))
            rng.shuffle(p)
            perms.append(p)
        case["orders"] = {"0": perms}
    if kind in ("grid_realset", "grid_order") and rng.random() < 0.35:
        # missing (None) values: anywhere, and preferably in the first samples at/after the latest
        # first timestamp (a component without data right after start-up)
        nones = []
        firsts = [s[0] for s in streams if s]
        t0 = max(firsts) if firsts else 0
        for g, sg in enumerate(streams):
            for k, t in enumerate(sg):
                p = 0.35 if t0 <= t <= t0 + 2 * d else 0.08
                if rng.random() < p:
                    nones.append([g, k])
        case["nones"] = nones
    case["sched"] = gen_sched(rng, case["streams"])
    return case


def gen_stall_case(rng):
    """Grid inputs fed in lock-step; after a few ticks ONE input stalls for more than a minute of
    (virtual) time while the others keep ticking (their backlog stays <= 40), then it delivers
    everything it owes with the original timestamps."""
    n = rng.choice([2, 2, 3, 4])
    d = rng.choice([1, 2, 4])
    base = rng.randrange(-40, 40)
    pre = rng.randint(1, 4)
    m = rng.randint(3, 30)                      # ticks the others advance during the stall
    post = rng.randint(2, 6)
    total = pre + m + post
    streams = [[base + d * j for j in range(total)] for _ in range(n)]
    g = rng.randrange(n)
    others = [i for i in range(n) if i != g]
    sched = [["c"]] if rng.random() < 0.7 else []
    for _ in range(pre):
        sched += [["s", i] for i in range(n)] + [["p"]]
    if not sched or sched[0] != ["c"]:
        sched.append(["c"])
    period = rng.choice([3, 5, 10, 30]) if rng.random() < 0.8 else 1
    waited = 0
    for _ in range(m):
        sched += [["s", i] for i in others] + [["w", period]]
        waited += period
    if rng.random() < 0.8 and waited <= 61:
        sched.append(["w", 62 - waited + rng.randint(0, 30)])
    burst = rng.random() < 0.5
    for _ in range(m):
        sched.append(["s", g])
        if not burst:
            sched.append(["y", rng.randint(1, 6)])
    sched.append(["p"])
    for _ in range(post):
        sched += [["s", i] for i in range(n)] + [["p"]]
    return {"kind": "stall", "d": d, "streams": streams, "eng": [list(range(n))], "orders": None, "sched": sched}


def gen_startup_gap_case(rng):
    """Grid inputs, except that ONE lagging input (its first timestamp is below the latest first
    timestamp T0 and shared with no other input) misses a run of samples around T0: catching up
    overshoots, the first synchronisation fails ("Unable to synchronize ..."), and the evaluator has
    to synchronise again in the next round.  From then on every input is on the grid again."""
    n = rng.choice([2, 2, 3, 3, 4, 5])
    d = rng.choice([1, 2, 4])
    base = rng.randrange(-40, 40)
    offs = list(range(-3, 4))
    rng.shuffle(offs)
    lag_off = offs[0]
    others = [rng.choice([o for o in range(-3, 4) if o != lag_off]) for _ in range(n - 1)]
    if max(others) <= lag_off:                       # make the chosen input a real laggard
        others[rng.randrange(n - 1)] = rng.randint(lag_off + 1, 4)
    t0 = max(others)
    streams = []
    for o in others:
        streams.append([base + d * (o + j) for j in range(rng.randint(6, 16))])
    lag = [base + d * (lag_off + j) for j in range(rng.randint(8, 18))]
    # remove a run of samples g1..g2 (in steps) with lag_off < g1 <= g2; mostly covering T0 (overshoot)
    if rng.random() < 0.8:
        g1 = rng.randint(lag_off + 1, t0)
        g2 = rng.randint(t0, t0 + 2)
    else:
        g1 = rng.randint(lag_off + 1, t0)
        g2 = rng.randint(g1, t0) - 1 if g1 < t0 else g1 - 1      # a gap strictly before T0 (or none)
    lag = [t for t in lag if not (base + d * g1 <= t <= base + d * g2)]
    pos = rng.randrange(n)
    streams.insert(pos, lag)
    perms = []
    for _ in range(rng.randint(1, 4)):
        q = list(range(n))
        rng.shuffle(q)
        perms.append(q)
    case = {"kind": "startup_gap", "d": d, "streams": streams, "eng": [list(range(n))],
            "orders": {"0": perms} if rng.random() < 0.7 else None, "gap_stream": pos}
    if case["orders"] is None and n > 2:
        # with the real (arbitrary) set order the result may depend on which group is drained first
        case["orders"] = {"0": perms}
    case["sched"] = gen_sched(rng, streams)
    return case


def gen_three_case(rng, kind):
    d = rng.choice([1, 2])
    sizes = [rng.choice([1, 1, 2]) for _ in range(3)]
    streams, eng = [], []
    base = rng.randrange(-20, 20)
    for p in range(3):
        ids = []
        for _ in range(sizes[p]):
            o = rng.randint(-3, 3)
            ln = rng.randint(0, 3) if rng.random() < 0.08 else rng.randint(4, 14)
            ids.append(len(streams))
            streams.append([base + d * (o + j) for j in range(ln)])
        eng.append(ids)
    if kind == "three_equal_t0":
        t0 = max(s[0] for s in streams if s) if any(streams) else 0
        for p in range(3):
            g = eng[p][0]
            ln = max(len(streams[g]), 3)
            streams[g] = [t0 + d * j for j in range(ln)]
    case = {"kind": kind, "d": d, "streams": streams, "eng": eng, "orders": None}
    if kind == "three_gaps":
        # a per-phase engine that skips a timestamp (its input has a gap inside the steady state)
        cand = [g for g in range(len(streams)) if len(streams[g]) > 6 and any(ids == [g] for ids in eng)]
        if cand:
            g = rng.choice(cand)
            j = rng.randrange(4, len(streams[g]))
            streams[g] = streams[g][:j] + [t + d * rng.randint(1, 2) for t in streams[g][j:]]
        case["orders"] = {str(e): [list(range(len(eng[e])))] for e in range(3)}
    case["sched"] = gen_sched(rng, streams)
    if kind == "three_small_consumer":
        # the consumer subscribes with a small buffer and reads continuously; one phase lags by more
        # than that buffer (but < 40) and then delivers one sample at a time
        N = rng.choice([1, 2, 5, 10])
        L = rng.randint(N + 1, min(38, N + 15))
        total = L + rng.randint(2, 6)
        base = rng.randrange(-20, 20)
        streams = [[base + d * j for j in range(total)] for _ in range(3)]
        lagp = rng.randrange(3)
        sched = [["c"]]
        for _ in range(L):
            sched += [["s", p] for p in range(3) if p != lagp]
            if rng.random() < 0.3:
                sched.append(["p"])
        sched.append(["p"])
        for j in range(total):
            sched.append(["s", lagp])
            if j >= L:
                sched += [["s", p] for p in range(3) if p != lagp]
            sched.append(["p"])
        case = {"kind": kind, "d": d, "streams": streams, "eng": [[0], [1], [2]], "orders": None,
                "out_size": N, "sched": sched}
    return case


def shrink_case(case):
    n = len(case["streams"])
    simple = [["c"]] + [["s", g] for k in range(max((len(s) for s in case["streams"]), default=0)) for g in range(n)] + [["p"]]
    if case["sched"] != simple:
        yield {**case, "sched": simple}
    for g in range(n):
        s = case["streams"][g]
        if len(s) > 1:
            yield {**case, "streams": case["streams"][:g] + [s[:-1]] + case["streams"][g + 1:]}
            yield {**case, "streams": case["streams"][:g] + [s[: len(s) // 2]] + case["streams"][g + 1:]}
    ys = [i for i, a in enumerate(case["sched"]) if a[0] in ("y", "p")]
    for i in ys[:6]:
        yield {**case, "sched": case["sched"][:i] + case["sched"][i + 1:]}
    if len(case["eng"]) == 1 and n > 1:
        # drop the last stream
        keep = n - 1
        orders = case.get("orders")
        if orders is not None:
            orders = {"0": [[i for i in p if i < keep] for p in orders["0"]]}
        yield {**case, "streams": case["streams"][:keep], "eng": [list(range(keep))], "orders": orders,
               "sched": [a for a in case["sched"] if not (a[0] == "s" and a[1] >= keep)]}


# ----------------------------------------------------------------------------- property oracle helpers
def is_grid(case):
    d = case["d"]
    firsts = [s[0] for s in case["streams"] if s]
    for s in case["streams"]:
        if any(b - a != d for a, b in zip(s, s[1:])):
            return False
    return all((f - firsts[0]) % d == 0 for f in firsts)


def judge_engine_outputs(case, ids, outs):
    """outs: [(tick, value)] of ONE plain engine over global streams `ids`; returns problems."""
    probs = []
    n = len(ids)
    d = case["d"]
    nones = case.get("nones") or []
    for tick, v in outs:
        # a missing (None) input value of that timestamp makes the sample None, nothing else does
        miss = [g for g in ids if tick in case["streams"][g] and [g, case["streams"][g].index(tick)] in nones]
        if not any(tick in case["streams"][g] for g in ids):
            probs.append(f"timestamp: emitted tick {tick} is not the timestamp of any input sample "
                         f"(inputs span {min((case['streams'][g][0] for g in ids if case['streams'][g]), default=None)}.."
                         f"{max((case['streams'][g][-1] for g in ids if case['streams'][g]), default=None)})")
            continue
        if v is None:
            if not miss:
                probs.append(f"value: sample at tick {tick} is None although every input has a value for that timestamp")
            continue
        if miss:
            probs.append(f"value: sample at tick {tick} has value {v} although input {miss[0]} is None at that timestamp")
            continue
        ks = decode(v, n)
        if ks is None:
            probs.append(f"sample at tick {tick} has value {v} that is not a sum of one sample per input")
            continue
        for li, g in enumerate(ids):
            k = ks[li]
            if not (0 <= k < len(case["streams"][g])) or case["streams"][g][k] != tick:
                ts = case["streams"][g][k] if 0 <= k < len(case["streams"][g]) else None
                probs.append(f"single-timestamp: sample stamped tick {tick} used sample #{k} of input {g} stamped {ts}")
                break
    ticks = [t for t, _ in outs]
    for a, b in zip(ticks, ticks[1:]):
        if b - a != d:
            probs.append(f"step: emitted timestamps {a} -> {b} do not advance by one input step {d}")
            break
    # none skipped: every tick at which all inputs have a sample, from the latest first timestamp on
    if all(case["streams"][g] for g in ids):
        t0 = max(case["streams"][g][0] for g in ids)
        common = set(case["streams"][ids[0]])
        for g in ids[1:]:
            common &= set(case["streams"][g])
        want = sorted(t for t in common if t >= t0)
        # contiguous prefix from t0 (the engine legitimately blocks at the first missing input)
        pref = []
        for j, t in enumerate(want):
            if t != t0 + j * d:
                break
            pref.append(t)
        if ticks != pref:
            probs.append(f"timeline: emitted ticks {ticks[:8]}... differ from the available common ticks {pref[:8]}... from the latest first timestamp {t0}")
    elif ticks:
        probs.append("output although an input never delivered")
    return probs


# ----------------------------------------------------------------------------- composed engines
# A composed case: leaf inputs wrapped by FormulaEngine.from_receiver, formulas built from them (and
# from other composed engines, two levels) with the operator API, several simultaneous consumers.
#   tree := g (leaf id) | ["+", tree, tree, ...]
#   case: {"streams": [[tick..]..], "forms": [tree..] (each read by a consumer), "direct": [g..]
#          (leaf engines read directly), "sched": [...]}
# Equal sub-trees are ONE engine object (shared by its users), as in application code.
def tree_leaves(t):
    return [t] if isinstance(t, int) else [g for c in t[1:] for g in tree_leaves(c)]


def run_composed(case):
    async_solipsism, Broadcast, Quantity, Sample, FormulaBuilder, FormulaEngine, _ = _imports()
    res = {}

    async def main():
        n = len(case["streams"])
        chans = [Broadcast[Sample[Quantity]](name=f"g{g}") for g in range(n)]
        rxs = [c.new_receiver(limit=50) for c in chans]
        snd = [c.new_sender() for c in chans]
        leaf = [FormulaEngine.from_receiver(f"x{g}", rxs[g], Quantity) for g in range(n)]
        memo = {}

        def build(t):
            if isinstance(t, int):
                return leaf[t]
            key = json.dumps(t)
            if key not in memo:
                subs = [build(c) for c in t[1:]]
                b = subs[0] + subs[1]
                for e in subs[2:]:
                    b = b + e
                memo[key] = b.build("f" + str(len(memo)))
            return memo[key]

        def build_shared(sh):
            """engines built from SHARED builder objects: a partial expression kept in a variable and
            extended / built several times (the engines run at the same time)"""
            parts = [build(t) for t in sh["common"]]
            common = parts[0] + parts[1]
            for e in parts[2:]:
                common = common + e
            out = []
            for i, (ext, side, nz) in enumerate(zip(sh["exts"], sh["sides"], sh["nz"])):
                b = common
                for g in ext:
                    b = (b + leaf[g]) if side == "L" else (leaf[g] + b)
                out.append(b.build(f"shared{i}", nones_are_zeros=nz))
            return out

        consumers = None
        sent = [0] * n
        max_backlog = 0
        for act in case["sched"] + [["c"], ["p"]]:
            if act[0] == "s":
                g = act[1]
                k = sent[g]
                if k < len(case["streams"][g]):
                    t = E + timedelta(microseconds=TICK_US * case["streams"][g][k])
                    await snd[g].send(Sample(t, Quantity(float(value_of(g, k)))))
                    sent[g] += 1
                    max_backlog = max(max_backlog, len(rxs[g]._q))  # pylint: disable=protected-access
            elif act[0] == "y":
                for _ in range(act[1]):
                    await asyncio.sleep(0)
            elif act[0] == "p":
                await asyncio.sleep(1.0)
            elif act[0] == "c" and consumers is None:
                # everything is built and subscribed in one go (no await in between): a consumer that
                # subscribes after an engine started emitting legitimately misses the earlier samples
                tops = [build(t) for t in case["forms"]] + [leaf[g] for g in case["direct"]]
                if case.get("shared"):
                    tops += build_shared(case["shared"])
                consumers = [e.new_receiver(max_size=100000) for e in tops]
        outs = []
        for rx in consumers:
            out = []
            while len(rx._q):  # pylint: disable=protected-access
                m = rx.consume() if await rx.ready() else None
                us = (m.timestamp - E) // timedelta(microseconds=1)
                tick = us // TICK_US if us % TICK_US == 0 else us / TICK_US
                out.append([tick, None if m.value is None else int(m.value.base_value)])
            outs.append(out)
        res["outs"] = outs
        res["max_backlog"] = max_backlog
        for t in asyncio.all_tasks():
            if t is not asyncio.current_task():
                t.cancel()
        await asyncio.sleep(0)

    loop = async_solipsism.EventLoop()
    try:
        loop.run_until_complete(main())
    finally:
        loop.close()
    return res


HEADER_COMPOSED = """From Verif Require Import model.EvalSync.
(* case: per consumer (model output of its engine expression, expected output) *)
Definition check (c : list (list sample * list (Z * Z))) : bool :=
  forallb (fun p => list_eqb sample_eqb (fst p) (snd p)) c.
"""


def shared_trees(case):
    sh = case.get("shared")
    if not sh:
        return []
    return [["+"] + list(sh["common"]) + list(ext) if side == "L" else ["+"] + list(ext) + list(sh["common"])
            for ext, side in zip(sh["exts"], sh["sides"])]


def composed_tops(case):
    return list(case["forms"]) + list(case["direct"]) + shared_trees(case)


def c_tree(case, t):
    if isinstance(t, int):
        return f"(engine_of [{c_stream(case, t, t)}] (@nil (list nat)))"
    return "(engine_of [" + "; ".join(c_tree(case, c) for c in t[1:]) + "] (@nil (list nat)))"


def composed_term(case, obs):
    tops = composed_tops(case)
    parts = []
    for t, out in zip(tops, obs["outs"]):
        exp = "[" + "; ".join(f"({cZ(int(o[0] * TICK_US))}, {cZ(-1 if o[1] is None else o[1])})" for o in out) + "]" if out else "(@nil (Z * Z))"
        parts.append(f"({c_tree(case, t)}, {exp})")
    return "[" + "; ".join(parts) + "]"


def gen_tree_over(rng, leaves, depth):
    """a sum over all of [leaves] (distinct), nested up to [depth] levels"""
    leaves = list(leaves)
    rng.shuffle(leaves)
    if len(leaves) == 1:
        return leaves[0]
    if depth <= 1 or len(leaves) == 2 or rng.random() < 0.4:
        return ["+"] + leaves
    k = rng.randint(2, len(leaves) - 1) if len(leaves) > 2 else 2
    inner = gen_tree_over(rng, leaves[:k], depth - 1)
    rest = leaves[k:]
    return ["+", inner] + rest if rng.random() < 0.5 else ["+"] + rest + [inner]


def gen_composed_case(rng):
    n = rng.choice([2, 3, 3, 4, 5])
    d = rng.choice([1, 2])
    streams = gen_grid_streams(rng, n, d, 40 if rng.random() < 0.2 else 16)
    nforms = rng.choice([1, 2, 2, 3])
    forms = []
    shared = rng.randrange(n)                      # an input used by every formula
    for _ in range(nforms):
        k = rng.randint(2, min(n, 4))
        others = [g for g in range(n) if g != shared]
        rng.shuffle(others)
        forms.append(gen_tree_over(rng, [shared] + others[: k - 1], 2))
    if nforms >= 2 and rng.random() < 0.4:          # a composed engine reused inside another formula
        inner = forms[0]
        free = [g for g in range(n) if g not in tree_leaves(inner)]
        if free:
            forms[1] = ["+", inner, rng.choice(free)]
    direct = [shared] if rng.random() < 0.5 else []
    if rng.random() < 0.2:
        direct.append(rng.randrange(n))
    case = {"kind": "composed", "d": d, "streams": streams, "forms": forms, "direct": sorted(set(direct)),
            "eng": [list(range(n))]}
    if n >= 3 and rng.random() < 0.45:
        # a common sub-builder reused for 2-3 engines: extended on the left or the right by other inputs,
        # or built as it is (possibly twice), with nones_are_zeros on or off
        order = list(range(n))
        rng.shuffle(order)
        k = rng.randint(2, n - 1)
        common, rest = order[:k], order[k:]
        exts, sides, nz = [], [], []
        for _ in range(rng.randint(2, 3)):
            r = rng.random()
            ext = [] if r < 0.3 else rng.sample(rest, rng.randint(1, min(2, len(rest))))
            exts.append(ext)
            sides.append(rng.choice("LLR"))
            nz.append(rng.random() < 0.4)
        case["shared"] = {"common": common, "exts": exts, "sides": sides, "nz": nz}
        if rng.random() < 0.5:
            case["forms"] = case["forms"][:1]
    case["sched"] = gen_sched(rng, streams)
    return case


def shrink_composed(case):
    n = len(case["streams"])
    simple = [["c"]] + [["s", g] for k in range(max((len(s) for s in case["streams"]), default=0)) for g in range(n)] + [["p"]]
    if case["sched"] != simple:
        yield {**case, "sched": simple}
    nosubscribe_late = [a for a in case["sched"] if a[0] != "y"]
    if nosubscribe_late != case["sched"]:
        yield {**case, "sched": nosubscribe_late}
    if len(case["forms"]) + len(case["direct"]) > 1 or (case.get("shared") and case["forms"]):
        for i in range(len(case["forms"])):
            yield {**case, "forms": case["forms"][:i] + case["forms"][i + 1:]}
        for i in range(len(case["direct"])):
            yield {**case, "direct": case["direct"][:i] + case["direct"][i + 1:]}
    sh = case.get("shared")
    if sh:
        if case["forms"] or case["direct"]:
            yield {**case, "forms": [], "direct": []}
        if len(sh["exts"]) > 2:
            for i in range(len(sh["exts"])):
                yield {**case, "shared": {**sh, "exts": sh["exts"][:i] + sh["exts"][i + 1:],
                                          "sides": sh["sides"][:i] + sh["sides"][i + 1:], "nz": sh["nz"][:i] + sh["nz"][i + 1:]}}
    for g in range(n):
        sg = case["streams"][g]
        if len(sg) > 1:
            yield {**case, "streams": case["streams"][:g] + [sg[: len(sg) // 2]] + case["streams"][g + 1:]}
            yield {**case, "streams": case["streams"][:g] + [sg[:-1]] + case["streams"][g + 1:]}


def judge_sum_outputs(case, ids, outs, exact_timeline=True):
    """outs: [(tick, value)] of a consumer whose value is the sum over the global inputs [ids]
    (value of sample k of input g = (k+1)*BASE**g)."""
    probs = []
    d = case["d"]
    for tick, v in outs:
        if v is None or v < 0:
            probs.append(f"sample at tick {tick} has no value")
            break
        digits = decode(v, len(case["streams"]))
        if digits is None:
            probs.append(f"sample at tick {tick}: value {v} is not a sum of input samples")
            break
        bad = None
        for g in range(len(case["streams"])):
            k = digits[g]
            if g not in ids:
                if k != -1:
                    bad = f"sample at tick {tick} contains input {g} which is not part of the formula"
                continue
            if not (0 <= k < len(case["streams"][g])) or case["streams"][g][k] != tick:
                ts = case["streams"][g][k] if 0 <= k < len(case["streams"][g]) else None
                bad = f"single-timestamp: sample stamped tick {tick} used sample #{k} of input {g} stamped {ts}"
                break
        if bad:
            probs.append(bad)
            break
    ticks = [t for t, _ in outs]
    for a, b in zip(ticks, ticks[1:]):
        if b - a != d:
            probs.append(f"step: emitted timestamps {a} -> {b} do not advance by one input step {d}")
            break
    if exact_timeline:
        if all(case["streams"][g] for g in ids):
            t0 = max(case["streams"][g][0] for g in ids)
            end = min(case["streams"][g][-1] for g in ids)
            want = list(range(t0, end + 1, d))
            if ticks != want and not probs:
                probs.append(f"timeline: consumer saw ticks {ticks[:8]}... instead of every common tick {want[:8]}... once")
        elif ticks:
            probs.append("output although an input never delivered")
    return probs
