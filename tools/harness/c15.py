"""C15 — distribution results truthfully account for the requested power (battery pools, PV pools)."""
from __future__ import annotations

from harness import accounting as A

ID = "C15"
PROPS = "props/C15.v"
NEEDS = ["acc_close_to_zero_abs_tol", "dist_close_to_zero_abs_tol"]   # the second one through model/Dist.v (C15_bat_end_to_end)


def streams():
    return [A.BatStream(), A.PVStream(), A.BatAlgStream(), A.ConcPVStream(), A.ConcBatStream(), A.WiredBatStream(), A.WiredPVStream()]


ASSUMPTIONS = [
    "Battery path: in C15_bat_sum/_sets/_failed/_succeeded the per-inverter set-points and the algorithm's remaining "
    "power are inputs, and `sum(set-points) + remaining == requested` (C01's conclusion) is an explicit hypothesis of "
    "C15_bat_succeeded only. C15_bat_end_to_end discharges it: set-points and remainder are those of the distribution "
    "model (coq/model/Dist.v, tied to the code by C01's own correspondence) for any battery data, via the lemma behind "
    "C01_sum; it holds for requests the algorithm does not treat as zero (|p| > 1e-9 W) and takes the calls in the "
    "model's group order (sums are order-independent).",
    "Every addressed inverter is a key of _inv_bats_map with a non-empty battery set (how "
    "_get_battery_inverter_mappings builds the map); PV working components carry distinct ids (they come from a set).",
    "No state is shared between requests in flight on one manager instance: each Result is modelled as a function "
    "of its own request and the outcomes of its own calls; this is not proved about the code, it is tied by the "
    "conc_pv / conc_battery streams (2-3 concurrent requests for disjoint component sets on ONE manager instance, "
    "scripted reply latencies, every Result judged against its own request and compared with the model).",
    "The Result judged is the object that was SENT: the wired_battery / wired_pv streams build the managers with their "
    "real constructors on a fake microgrid (component graph + data streams; real ComponentPoolStatusTracker and "
    "Battery/PVInverterStatusTrackers, real distribution algorithm, real results channel, timeouts of 5 s, 2.5 s and "
    "0.75 s), run histories of 1-3 requests, let a battery / inverter start reporting an unusable state (error state, "
    "opened relay, NaN capacity, inverter error) while set_power calls are in flight, read each Result from the "
    "results channel after the request settled and read the retained objects again at the end of the history "
    "(a Result must not change after it was sent). The model takes the recorded set_power calls and the reported "
    "excess as inputs there.",
    "PV lower bounds are rationals in the model. NaN / -inf / -0.0 / 0.0 inclusion lower bounds of single inverters are "
    "exercised on a float path of the pv and wired_pv streams, judged by the oracle only (non-finite values in a Result "
    "field or a set_power argument are violations; the other clauses within 1e-6): on the current code a NaN or -inf "
    "bound acts as 'no bound' (max() skips it, the inverter gets its equal share). A +inf lower bound is not generated: "
    "the current code then sends set_power(inf) and reports succeeded=inf, excess=-inf (noted, garbage-in).",
    "A call that has not replied when the timeout fires counts as timed out (failed) whatever happens afterwards: the "
    "scripted outcomes include replies that would arrive after the timeout and calls whose cancellation takes time to "
    "unwind (CancelledError caught, sleep, re-raised), alone and combined, in all streams. A client call that swallows "
    "its cancellation and returns normally is outside the outcome space and not scripted.",
    "asyncio: a task that has not finished when asyncio.wait times out is cancelled and its result() raises "
    "CancelledError; exercised on async_solipsism virtual time, not proved.",
]

TRUSTED = ["lib/exact.py (exact rationals through frequenz.quantities.Power)", "async_solipsism virtual-time event loop"]

META = {
    "technique": "Coq proof over Q (accounting identities by induction over the call list for every outcome vector; "
                 "PV water-filling loop invariant by structural induction) + T-tie of the is_close_to_zero tolerance + "
                 "differential correspondence of the real BatteryManager._distribute_power / PVManager.distribute_power "
                 "(fake API client, scripted per-call outcomes incl. timeouts on virtual time) vs the model evaluated in Coq",
    "level_text": "Machine-checked theorems, closed under the global context, on a Gallina model of "
                  "_distribute_power/_parse_result and of PVManager.distribute_power/_set_api_power: for every input and "
                  "every outcome vector succeeded+failed+excess == requested, succeeded/failed sets are disjoint and cover "
                  "exactly the addressed components, failed power == sum of the set-points of the failed calls, succeeded "
                  "power == sum of the set-points of the successful calls; PV: sum(allocations)+remaining == requested and "
                  "bound <= allocation <= 0, and a non-negligible negative excess implies every usable inverter got exactly its bound. The model is tied to the code by running the real managers on all 5^n outcome "
                  "vectors (n<=3 quick, n<=4 thorough) plus random cases (and set-points produced by the real distribution algorithm on C01-style component data) and comparing every Result field and every "
                  "set_power call exactly (rationals) inside Coq; the property is also judged directly on the Result "
                  "objects vs the calls the fake client recorded. Absence of cross-request state is tied by the "
                  "concurrent streams: 2-3 requests for disjoint component subsets run concurrently (asyncio.gather) on one "
                  "manager instance with per-component reply latencies (error-before-success, success-before-error, random, "
                  "instant); every Result is matched to its request by identity and judged/compared on its own.",
    "level_note": "Battery set-points/remaining power are inputs (C01/C02 own the algorithm) in the accounting theorems, the C01 "
                  "identity being a hypothesis of C15_bat_succeeded; C15_bat_end_to_end composes with the distribution model "
                  "(model/Dist.v) and discharges it with C01's lemma, so C15's closure includes Dist. PV model is the code after the F14 `fix:` commit; the pre-fix behaviour "
                  "is kept as pv_result_before_fix and refuted in a comment/Example only. When a PV manager has inverters "
                  "but none is usable, no Result is sent at all (model: NoResult; characterised by C15_pv_no_result) — "
                  "the accounting statement is vacuous there; noted, not counted as a violation. Trusted: Coq kernel + "
                  "vm_compute, harness fakes (API client, status tracker, data caches), exact-rational Power values, "
                  "asyncio timeout/cancellation semantics as exercised on virtual time.",
}
