"""C10 — actors restart after failures, only after failures, and stop cleanly."""
from __future__ import annotations

from harness import actor as A

ID = "C10"
PROPS = "props/C10.v"
NEEDS = ["actor_restart_delay_us"]

ASSUMPTIONS = [
    "asyncio: a task runs until its next await; Task.cancel() on a pending task makes exactly one CancelledError be thrown "
    "into the coroutine at its current await (or before its first step) at the task's next step, and does nothing on a done task",
    "asyncio: a coroutine that raises finishes its task in the same step (no other code runs in between); asyncio.sleep(d) resumes "
    "exactly d later on the loop clock; asyncio.wait(ALL_COMPLETED) resumes only after every awaited task is done, "
    "asyncio.wait(FIRST_COMPLETED) resumes with every task that is done at that moment",
    "Task.result() re-raises the task's exception / a CancelledError for a cancelled task; BaseExceptionGroup.split(CancelledError) "
    "separates exactly the CancelledErrors",
    "BackgroundService.__del__ (cancel at garbage collection) is outside the schedules",
    "cancel_and_await(task) is modelled as stop() of the anonymous singleton set {task} (done task: immediate return); `await task` "
    "resumes only when the task is done and re-raises its exception; the caller itself is not cancelled meanwhile",
    "`async with service:` is __aenter__ = start(), __aexit__ = stop() whatever the body did (normal exit, exception, cancellation)",
    "a cancelled / timed-out awaiter of wait()/stop()/`async with` exit: asyncio throws CancelledError at the call's current await "
    "(asyncio.wait), which leaves _tasks untouched; asyncio.timeout turns it into TimeoutError; modelled as GCallCancelled",
    "the restart-limit default (None) is not translatable by the T-tie (value None): it is tied by correspondence only",
]


def _limit(a):
    return None if a["limit"] == "default" else a["limit"]


class C10Stream(A.ActorStream):
    def oracle(self, case, obs):
        out = []
        V = lambda what: out.append({"what": what, "finding": None})
        log = obs["log"]
        fin = {f[0]: (f[1], f[2]) for f in obs["finals"]}
        # each actor's own restart delay: what its subclass / instance sets RESTART_DELAY to, else the base-class
        # Actor.RESTART_DELAY of the code under test (read at run time)
        delays = [A.actor_delay_us(a) if A.actor_delay_us(a) is not None else obs["delay_us"] for a in case["actors"]]
        if obs["hung"]:
            V("stop: a stop()/wait()/run() call had not returned long (40 restart delays) after every actor was stopped")
        # ---- per loop task: restart policy
        loops = {}     # tid -> dict
        cur_lim = {i: _limit(a) for i, a in enumerate(case["actors"])}    # restart limit in force, per actor
        changed = set()                                                  # actors whose limit was changed on the way
        fin_at = {}    # tid -> (log index, time) at which the task finished
        owner = {}     # tid -> (actor, log index of creation)
        for i, e in enumerate(log):
            k = e[1]
            if k == "add":
                owner[e[3]] = (e[2], i)
            elif k == "xdone":
                fin_at[e[2]] = (i, e[0])
            elif k == "start" and e[4]:
                owner[e[3]] = (e[2], i)
            if k == "start" and e[4]:
                loops[e[3]] = {"a": e[2], "t0": e[0], "enter": [], "exit": [], "dc": False, "last": "created"}
            elif k == "enter":
                L = loops[e[2]]
                if L["last"] == "run":
                    V(f"sequential: _run of actor {L['a']} invoked while the previous invocation had not finished")
                if L["last"] == "final":
                    V(f"no-restart: _run of actor {L['a']} re-invoked after it ended with {L['exit'][-1][1]}")
                if L["last"] == "limit":
                    V(f"restart-limit: _run of actor {L['a']} re-invoked after {len(L['exit'])} failures "
                      f"({len(L['exit']) - 1} restarts already consumed) although the restart limit in force was {L.get('lim_at_end')}")
                if L["last"] == "created" and e[0] != L["t0"]:
                    V(f"delay: first invocation at t={e[0]}us, started at t={L['t0']}us")
                if L["last"] == "failed" and e[0] != L["exit"][-1][0] + delays[L["a"]]:
                    V(f"delay: actor {L['a']} restarted at t={e[0]}us after the failure at t={L['exit'][-1][0]}us; its "
                      f"restart delay is {delays[L['a']]}us ({case['actors'][L['a']].get('delay', 'base class')})")
                L["enter"].append(e[0])
                L["last"] = "run"
            elif k == "setlimit":
                cur_lim[e[2]] = e[3]
                changed.add(e[2])
            elif k == "exit":
                L = loops[e[2]]
                L["exit"].append((e[0], e[3]))
                if e[3] == "exc":
                    lim = cur_lim[L["a"]]          # the limit IN FORCE at this failure
                    nexc = sum(1 for x in L["exit"] if x[1] == "exc")
                    L["lim_at_end"] = lim
                    # restarts consumed so far = nexc - 1; restart iff they are below the limit
                    L["last"] = "failed" if (lim is None or nexc - 1 < lim) else "limit"
                else:
                    L["last"] = "final"
                if L["last"] != "failed":
                    fin_at[e[2]] = (i, e[0])
            elif k == "delaycancel":
                L = loops[e[2]]
                if L["last"] not in ("created", "failed"):
                    V(f"harness: loop task {e[2]} ended outside _run in state {L['last']}")
                L["dc"] = True
                L["last"] = "cancelled-in-delay"
                fin_at[e[2]] = (i, e[0])
        # restarts happen at most one per loop iteration: a callback scheduled (call_soon) right after a failing run gets to
        # run before the run logic is invoked again
        waiting_tick = {}
        for e in log:
            if e[1] == "exit" and e[3] == "exc":
                waiting_tick[e[2]] = e[0]
            elif e[1] == "tick":
                waiting_tick.pop(e[2], None)
            elif e[1] == "enter" and e[2] in waiting_tick:
                V(f"restart: actor {loops[e[2]]['a']} was re-invoked in the same step of its task in which the previous run failed "
                  f"(t={e[0]}us): a callback scheduled right after the failure did not get to run, so a cancel()/stop() "
                  f"requested between the two runs could not take effect")
                waiting_tick.pop(e[2], None)
        # at most one invocation of one actor at a time, over all its loop tasks
        active = {}
        for e in log:
            if e[1] == "enter":
                a = loops[e[2]]["a"]
                if active.get(a) is not None:
                    V(f"sequential: actor {a} runs twice concurrently (loop tasks {active[a]} and {e[2]})")
                active[a] = e[2]
            elif e[1] == "exit":
                active[loops[e[2]]["a"]] = None
        for tid, L in loops.items():
            lim = _limit(case["actors"][L["a"]])
            nexc = sum(1 for x in L["exit"] if x[1] == "exc")
            o, cr = fin.get(tid, (None, 0))
            if o is None:
                if not obs["hung"]:
                    V(f"stop: loop task {tid} of actor {L['a']} still pending after the actor was stopped")
                continue
            expected = nexc if L["dc"] else 1 + (nexc if lim is None else min(nexc, max(0, lim)))
            if L["a"] not in changed and len(L["enter"]) != expected:
                V(f"restart-count: actor {L['a']} (limit {lim}) had {nexc} failing runs and {len(L['enter'])} invocations, "
                  f"expected {expected}" + (" (cancelled while waiting to restart)" if L["dc"] else ""))
            if L["last"] == "failed":
                V(f"restart: actor {L['a']} failed ({nexc} failures, limit {lim}) and was neither restarted nor cancelled")
            if L["dc"] and cr == 0:
                V(f"no-restart: loop task {tid} ended by cancellation without any cancel request")
            want = "cancelled" if L["dc"] else (L["exit"][-1][1] if L["exit"] else None)
            if want is not None and o != want:
                V(f"outcome: loop task {tid} of actor {L['a']} finished as {o}, its last run ended as {want}")
        # ---- cancellation only on request: a task's Task.cancelling() count is exactly the number of cancel() /
        #      stop() / cancel_and_await() / Task.cancel() requests recorded for it (a waiter that gives up -- wait() or
        #      run() cancelled or timed out -- must not cancel the service's tasks)
        requested = {}
        for i, e in enumerate(log):
            if e[1] == "cancel":
                tg = e[3]
            elif e[1] == "stopcall":
                tg = e[5]
            elif e[1] == "cawcall":
                tg = e[4] or []
            elif e[1] == "cancel1":        # Task.cancel() of a finished task does nothing
                tg = [] if (e[2] in fin_at and fin_at[e[2]][0] < i) else [e[2]]
            else:
                continue
            for t in tg:
                requested[t] = requested.get(t, 0) + 1
        for tid, (o, cr) in fin.items():
            if cr != requested.get(tid, 0):
                V(f"cancel-on-request: task {tid} of actor {owner.get(tid, ('?',))[0]} received {cr} cancellation(s), "
                  f"{requested.get(tid, 0)} were requested through cancel()/stop()/cancel_and_await()/Task.cancel()")
        # ---- stop() / wait()
        created_after = lambda idx, a: {e[3] for e in log[idx:] if (e[1] == "add" or (e[1] == "start" and e[4])) and e[2] == a}
        rets = {e[2]: (i, e) for i, e in enumerate(log) if e[1] == "ret"}
        aborted = {e[2]: (i, e) for i, e in enumerate(log) if e[1] == "abort"}     # the call raised CancelledError
        # ---- a cancelled / timed-out awaiter: the call may RAISE at any time but may RETURN only when the tasks are done,
        #      and the awaiter must see its CancelledError / TimeoutError
        for e in log:
            if e[1] != "opdone":
                continue
            wid, kind, how, fired, spec = e[2], e[3], e[4], e[5], e[7]
            began = next((i for i, x in enumerate(log) if x[1] in ("stopcall", "waitcall") and x[3] == wid), None)
            fire_i = next((i for i, x in enumerate(log) if x[1] == "awcancel" and x[2] == wid), None)
            end_i = rets[wid][0] if wid in rets else (aborted[wid][0] if wid in aborted else None)
            if fired and began is not None and fire_i is not None and began < fire_i and (end_i is None or end_i > fire_i):
                # the awaiter was cancelled while the call was blocked
                if wid in rets:
                    V(f"awaiter: the task awaiting {kind}() on actor {log[began][2]} was cancelled while the call was blocked, but "
                      f"{kind}() returned ({'normally' if rets[wid][1][3] == 'ok' else 'an error group'}) with tasks done="
                      f"{rets[wid][1][4]} and the awaiter finished as '{how}' instead of seeing CancelledError")
                elif how != "cancelled":
                    V(f"awaiter: the cancelled awaiter of {kind}() finished as '{how}', not with CancelledError")
            if how == "timeout" and wid not in aborted and began is not None:
                V(f"awaiter: {kind}() under asyncio.timeout raised TimeoutError although the call was not interrupted")
            if "timeout" in spec and wid in rets and rets[wid][1][0] > e[6] + spec["timeout"] * 1000:
                V(f"awaiter: {kind}() under asyncio.timeout({spec['timeout']}ms) returned at t={rets[wid][1][0]}us, after the "
                  f"deadline t={e[6] + spec['timeout'] * 1000}us: the timeout was lost")
        for i, e in enumerate(log):
            if e[1] not in ("stopcall", "waitcall"):
                continue
            is_stop = e[1] == "stopcall"
            a, wid = e[2], e[3]
            set0 = e[6] if is_stop else e[4]
            name = "stop" if is_stop else "wait"
            # every task registered with the service (start() / self.tasks.add(...)) and still unfinished belongs to the
            # set stop()/wait() handles
            registered = sorted(t for t, (oa, c) in owner.items() if oa == a and c < i and not (t in fin_at and fin_at[t][0] < i))
            missing = [t for t in registered if t not in set0]
            if missing:
                V(f"{name}: {name}() of actor {a} ignores the unfinished task(s) {missing} registered through its `tasks` set "
                  f"(it handles {set0})")
            elif wid in rets:
                late = [t for t in registered if t not in fin_at or fin_at[t][0] > rets[wid][0]]
                if late:
                    V(f"{name}: {name}() of actor {a} returned while the registered task(s) {late} were still running")
            if is_stop and sorted(e[5]) != sorted(e[4]):
                V(f"stop: stop() of actor {a} cancelled tasks {e[5]}, its unfinished tasks were {e[4]}")
            if wid not in rets:
                if not obs["hung"] and wid not in aborted:
                    V(f"{name}: call {wid} on actor {a} never returned")
                continue
            j, r = rets[wid]
            if not all(r[4]):
                V(f"{name}: {name}() of actor {a} returned while tasks {[t for t, d in zip(set0, r[4]) if not d]} of its "
                  f"set were not finished")
            outcomes = {t: fin[t][0] for t in set0}
            errs0 = sorted([t, o] for t, o in outcomes.items() if o in ("exc", "base"))
            ncanc0 = sum(1 for o in outcomes.values() if o == "cancelled")
            got = [] if r[3] == "ok" else r[3]
            got_err = sorted(x for x in got if x[1] != "cancelled")
            got_canc = sum(1 for x in got if x[1] == "cancelled")
            if any(x[1].startswith("other") for x in got):
                V(f"{name}: unexpected exception in the group: {got}")
            if is_stop and got_canc:
                V(f"stop: stop() of actor {a} surfaced {got_canc} CancelledError(s)")
            first_round_raises = any(o != "ret" for o in outcomes.values())
            if first_round_raises or not set0:
                if got_err != errs0:
                    V(f"{name}: {name}() of actor {a} raised {got_err}; the non-cancellation errors of its tasks {set0} are {errs0}")
                if not is_stop and got_canc != ncanc0:
                    V(f"wait: wait() of actor {a} reported {got_canc} cancellations, {ncanc0} of its tasks were cancelled")
            else:
                later = created_after(i, a)
                bad = [x for x in got_err if x[0] not in later]
                if bad:
                    V(f"{name}: {name}() of actor {a} raised {bad}, which are not errors of its tasks")
        # ---- cancel_and_await(task): returns only after the task is done; non-cancellation errors propagate
        for e in log:
            if e[1] != "cawcall":
                continue
            tid, wid, was_done = e[2], e[3], e[5]
            if wid not in rets:
                if not obs["hung"]:
                    V(f"cancel_and_await: the call on task {tid} never returned")
                continue
            r = rets[wid][1]
            if not all(r[4]):
                V(f"cancel_and_await: returned while task {tid} was still running (it was "
                  f"{'already being cancelled' if e[6] else 'running'} at the call)")
            o = fin[tid][0]
            want = "ok" if was_done or o not in ("exc", "base") else [[tid, o]]
            if r[3] != want and all(r[4]):
                V(f"cancel_and_await: task {tid} ended as {o}; the call " + ("returned normally" if r[3] == "ok" else f"raised {r[3]}")
                  + f", expected {'normal return' if want == 'ok' else want}")
            if not was_done and e[4] != [tid]:
                V(f"cancel_and_await: the cancellation of the unfinished task {tid} was not requested")
        # ---- async with service: __aexit__ is stop(), however the body ends
        for e in log:
            if e[1] != "withdone":
                continue
            a, set0, flags, raised, how = e[2], e[3], e[4], e[5], e[6]
            if e[8]:        # the task executing __aexit__ was cancelled meanwhile: it must see CancelledError
                if how != "cancelled":
                    V(f"async-with: the task leaving the `async with` block of actor {a} was cancelled during the exit but the "
                      f"statement ended as '{how}' (tasks done={flags}) instead of raising CancelledError")
                continue
            if not all(flags):
                V(f"async-with: the `async with` block of actor {a} (body: {e[7]}) was left while tasks "
                  f"{[t for t, d in zip(set0, flags) if not d]} of the service were still running")
                continue
            outcomes = {t: fin[t][0] for t in set0}
            errs0 = sorted([t, o] for t, o in outcomes.items() if o in ("exc", "base"))
            if any(o != "ret" for o in outcomes.values()) or not set0:
                got = sorted(x for x in raised if x[1] != "cancelled")
                if got != errs0:
                    V(f"async-with: leaving the block of actor {a} (body: {e[7]}) raised {got}; the non-cancellation errors "
                      f"of its tasks {set0} are {errs0}")
        # ---- run()
        begun = {e[2]: e for e in log if e[1] == "runbegin"}
        calls = {e[2]: e for e in log if e[1] == "runcall"}
        runrets = {e[2]: (i, e) for i, e in enumerate(log) if e[1] == "runret"}
        for e in log:
            if e[1] == "runerr":
                V(f"run: run() over actors {begun[e[2]][3]} raised {e[3]} instead of returning when all of them had finished")
        for rid, b in begun.items():
            ws = calls[rid][3] if rid in calls else []
            wr = [rets.get(w) for w in ws]
            if rid in runrets:
                i, e = runrets[rid]
                if any(x is None or x[0] > i for x in wr):
                    V(f"run: run() over actors {b[3]} returned before all of them had finished")
                elif wr and e[0] != max(x[1][0] for x in wr):
                    V(f"run: run() over actors {b[3]} returned at t={e[0]}us, the last actor finished at "
                      f"t={max(x[1][0] for x in wr)}us")
            elif all(x is not None for x in wr) and not obs["hung"]:
                V(f"run: every actor of run() over {b[3]} finished but run() did not return")
            # independent of what run() itself chose to wait on: the tasks of the actors it was GIVEN
            # (actors are told apart by identity -- names and classes may coincide)
            bi = log.index(b)
            ci = log.index(calls[rid]) if rid in calls else bi
            sel = set(b[3])
            T = sorted(t for t, (a, c) in owner.items() if a in sel and c < ci and not (t in fin_at and fin_at[t][0] < ci))
            end_i = runrets[rid][0] if rid in runrets else len(log)
            later = any(a in sel and ci < c < end_i for t, (a, c) in owner.items())
            names = [case["actors"][a].get("name", f"probe{a}") for a in b[3]]
            if rid in runrets:
                i, e = runrets[rid]
                unfinished = [t for t in T if t not in fin_at or fin_at[t][0] > i]
                if unfinished:
                    who = sorted({owner[t][0] for t in unfinished})
                    V(f"run: run() over actors {b[3]} (names {names}) returned at t={e[0]}us while tasks {unfinished} of "
                      f"actor(s) {who} were still running")
                elif not later:
                    last = max([fin_at[t][1] for t in T] + [log[ci][0]])
                    if e[0] != last:
                        V(f"run: run() over actors {b[3]} returned at t={e[0]}us, the last of their tasks finished at t={last}us")
            elif not later and all(t in fin_at for t in T) and not obs["hung"]:
                V(f"run: every task of the actors {b[3]} given to run() finished but run() did not return")
        return out


RESAMPLER_FINDING = "C10-resampling-actor-leaves-resampler-running"


class C10ServiceStream(A.ServiceStream):
    def oracle(self, case, obs):
        out = []
        for i, rnd in enumerate(obs["rounds"]):
            leaked = [t for t in rnd["tasks"] if t[1] and not t[2]]       # SDK coroutine, not done after stop() returned
            when = "stop()" if case["exit"].startswith("stop") else ("the `async with` block" if case["exit"].startswith("with") else "cancel() + wait()")
            if leaked:
                names = sorted({t[0] for t in leaked})
                finding = None
                # known: ComponentMetricsResamplingActor deliberately does not stop its Resampler (XXX comment in its
                # _run), so the receiving task of every subscribed metric outlives stop()
                if case["service"] == "resampling_actor_sub" and case.get("feed", 0) >= 1 and names == ["_StreamingHelper._receive_samples"]:
                    finding = RESAMPLER_FINDING
                out.append({"what": f"stop: after {when} of the {case['service']} service returned (round {i + 1}), {len(leaked)} task(s) it "
                                    f"spawned are still running: {names} (registered in its task set: {[t[3] for t in leaked]})",
                            "finding": finding})
            if rnd["is_running"]:
                out.append({"what": f"stop: the {case['service']} service still reports is_running after {when} returned (round {i + 1})",
                            "finding": None})
        return out


def streams():
    return [C10Stream(), C10ServiceStream()]


META = {
    "technique": "Coq proof (invariants of the _run_loop transition system and of the task-set/waiter system by induction over ALL "
                 "event sequences) + T-tie translation of Actor.RESTART_DELAY + trace refinement: real Actor/BackgroundService/run "
                 "driven on async_solipsism virtual time with scripted probe actors; recorded boundary events replayed through the "
                 "model's step inside Coq (vm_compute)",
    "level_text": "Machine-checked theorems (closed under the global context) on a Gallina labelled transition system of "
                  "Actor._run_loop (restart count = 1 + min(failures, limit); Return/Cancelled/BaseException final; restart exactly "
                  "RESTART_DELAY after the failure; one invocation at a time) and of BackgroundService start/cancel/stop/wait and run() over "
                  "abstract tasks (at most one live loop task per actor; stop returns only when every task of the set at call time is "
                  "done and raises exactly the non-cancellation errors of the tasks it waited for; run returns only when every wait "
                  "finished), for every event sequence. The model is tied to the code by replaying the boundary events of thousands of "
                  "scripted and exhaustively enumerated schedules of the real classes through the model; the property is also judged "
                  "directly on the recorded traces.",
    "level_note": "Assumed, not proved: asyncio task / cancellation / asyncio.wait semantics (listed in assumptions), exercised by the "
                  "harness. The restart-limit default is tied by correspondence only. The model allows `_run` to turn a cancellation "
                  "into an Exception: the loop then restarts and stop() waits for the new run (observed, a consequence of the statement's "
                  "own case split). If every task of the set returns normally and tasks were added meanwhile, stop()/wait() also waits "
                  "for (without cancelling) the added tasks and surfaces their errors; the theorem says so explicitly.",
}
