"""C17: battery-pool power bounds — advertised (PowerBoundsCalculator) vs enforced (BatteryManager).

Implementation side (all real code from /repo, numbers = exact rationals `lib.exact.X`):
  * `_get_battery_inverter_mappings` on a stub component graph (the topology of the case),
    used by the real `PowerBoundsCalculator.__init__` and for the manager's four maps;
  * `PowerBoundsCalculator.calculate(metrics_data, working)`;
  * `BatteryManager._get_components_data` (real grouping + `AggregatedBatteryData` /
    `_aggregate_battery_power_bounds`) on a `__new__`-built manager with stub caches and a stub
    status tracker, then `_get_bounds`, `_check_request` (both `adjust_power` modes),
    `SystemBounds.__contains__`, and `AvailabilityRatio.min_power` from the real
    `_inclusion_exclusion_bounds` + `_compute_battery_availability_ratio`.
The grouping each side actually used (which batteries / inverters form one element of
`battery_sets`, including CPython's `next(iter(frozenset))` choice) is RECORDED from the run
(recording dicts / caches) and handed to the model; the oracle checks both sides used the same.
A second run on floats is supporting evidence (exact agreement demanded when all data are
dyadic, i.e. float arithmetic is exact; 1e-6 relative otherwise).

Case (JSON):
  {"bats": [ids], "edges": [[inv, bat], ...], "extra_pred": [[meter, bat], ...],
   "data": {"<cid>": [V, V, V, V]}   (inclusion_lower, exclusion_lower, exclusion_upper, inclusion_upper)
   "absent": [cids missing from metrics_data], "working": [battery ids], "deltas": [[n, d], ...]}
  V = None | [num, den]
"""
from __future__ import annotations

import json
from datetime import datetime, timezone
from fractions import Fraction as F
from types import SimpleNamespace as NS

from lib.core import Stream, cQ, cZ, cbool, copt
from lib.exact import X

NOW = datetime(2020, 1, 1, tzinfo=timezone.utc)
TOL = F(1, 10 ** 9)


def fr(v):
    return None if v is None else F(v[0], v[1])


def enc(x):
    if x is None:
        return None
    x = x.q if isinstance(x, X) else F(x)
    return [x.numerator, x.denominator]


def _imports():
    from frequenz.client.microgrid import ComponentCategory, ComponentMetricId as M
    from frequenz.quantities import Power
    from frequenz.sdk.microgrid import connection_manager
    from frequenz.sdk.microgrid._power_distributing._component_managers import _battery_manager as bm
    from frequenz.sdk.microgrid._power_distributing._distribution_algorithm import BatteryDistributionAlgorithm
    from frequenz.sdk.microgrid._power_distributing.request import Request
    from frequenz.sdk.microgrid._power_distributing.result import Error, OutOfBounds
    from frequenz.sdk.timeseries.battery_pool._component_metrics import ComponentMetricsData
    from frequenz.sdk.timeseries.battery_pool._metric_calculator import PowerBoundsCalculator
    return NS(**locals())


# ----------------------------------------------------------------------------- topology
def inverters_of(case):
    return sorted({i for i, _ in case["edges"]})


def graph_stub(case, I):
    cat = {b: I.ComponentCategory.BATTERY for b in case["bats"]}
    cat.update({i: I.ComponentCategory.INVERTER for i in inverters_of(case)})
    cat.update({m: I.ComponentCategory.METER for m, _ in case.get("extra_pred", [])})
    comp = lambda c: NS(component_id=c, category=cat[c])

    def predecessors(b):
        return {id(x): x for x in [comp(i) for i, bb in case["edges"] if bb == b]
                + [comp(m) for m, bb in case.get("extra_pred", []) if bb == b]}.values()

    def successors(i):
        return [comp(b) for ii, b in case["edges"] if ii == i]
    return NS(predecessors=predecessors, successors=successors)


def is_complete(case):
    comps = set(case["bats"]) | set(inverters_of(case))
    return (not case["absent"]) and all(str(c) in case["data"] and all(v is not None for v in case["data"][str(c)]) for c in comps)


class RecDict(dict):
    """dict that logs `d[k]` and `d.get(k)` into a shared event list"""

    def __init__(self, src, log, tag):
        super().__init__(src)
        self._log, self._tag = log, tag

    def __getitem__(self, k):
        self._log.append((self._tag, k))
        return super().__getitem__(k)

    def get(self, k, default=None):
        self._log.append((self._tag + ".get", k))
        return super().get(k, default)


# ----------------------------------------------------------------------------- one run
def run_once(case, num):
    I = _imports()
    M = I.M
    old = I.connection_manager._CONNECTION_MANAGER
    I.connection_manager._CONNECTION_MANAGER = NS(component_graph=graph_stub(case, I), api_client=None)
    try:
        return _run(case, num, I, M)
    finally:
        I.connection_manager._CONNECTION_MANAGER = old


def _run(case, num, I, M):
    bats, invs = list(case["bats"]), inverters_of(case)
    bkeys = [M.POWER_INCLUSION_LOWER_BOUND, M.POWER_EXCLUSION_LOWER_BOUND, M.POWER_EXCLUSION_UPPER_BOUND, M.POWER_INCLUSION_UPPER_BOUND]
    ikeys = [M.ACTIVE_POWER_INCLUSION_LOWER_BOUND, M.ACTIVE_POWER_EXCLUSION_LOWER_BOUND,
             M.ACTIVE_POWER_EXCLUSION_UPPER_BOUND, M.ACTIVE_POWER_INCLUSION_UPPER_BOUND]
    out = {}
    # ---- advertised: real constructor (real mapping code) + calculate
    calc = I.PowerBoundsCalculator(set(bats))
    usable = set(calc.batteries)
    working = set(case["working"]) & usable          # SendOnUpdate intersects with calculator.batteries
    md = {}
    for c in bats + invs:
        if c in case["absent"] or str(c) not in case["data"]:
            continue
        keys = bkeys if c in bats else ikeys
        md[c] = I.ComponentMetricsData(c, NOW, {k: num(fr(v)) for k, v in zip(keys, case["data"][str(c)]) if v is not None})
    log = []
    inv_map = dict(calc._bat_inv_map)
    calc._bat_inv_map = RecDict(inv_map, log, "G")
    sb = calc.calculate(RecDict(md, log, "D"), set(working))
    calc._bat_inv_map = inv_map
    groups = []
    for tag, k in log:
        if tag == "G":
            groups.append({"bats": [], "invs": sorted(inv_map[k])})
        elif tag == "D.get" and k in bats:
            groups[-1]["bats"].append(k)
    out["calc_groups"] = groups
    if sb.inclusion_bounds is None or sb.exclusion_bounds is None:
        assert sb.inclusion_bounds is None and sb.exclusion_bounds is None
        adv = None
    else:
        adv = [sb.inclusion_bounds.lower.as_watts(), sb.exclusion_bounds.lower.as_watts(),
               sb.exclusion_bounds.upper.as_watts(), sb.inclusion_bounds.upper.as_watts()]
    out["adv"] = adv
    if not is_complete(case):
        return out, None
    # ---- enforced: manager with the real maps, real grouping, real aggregation
    mgr = I.bm.BatteryManager.__new__(I.bm.BatteryManager)
    maps = I.bm._get_battery_inverter_mappings(set(bats))
    mgr._bat_invs_map, mgr._inv_bats_map = maps["bat_invs"], maps["inv_bats"]
    mgr._bat_bats_map, mgr._inv_invs_map = maps["bat_bats"], maps["inv_invs"]
    mlog = []

    def cache(c, obj):
        def get():
            mlog.append(c)
            return obj
        return NS(has_value=lambda: True, get=get)
    d = lambda c: [num(fr(v)) for v in case["data"][str(c)]]
    sd = lambda b: [num(fr(v)) for v in case.get("soc", {}).get(str(b), [[1, 1], [0, 1], [100, 1], [50, 1]])]  # capacity, lower, upper, soc
    mgr._battery_caches = {b: cache(b, NS(component_id=b, capacity=sd(b)[0], soc=sd(b)[3], soc_lower_bound=sd(b)[1],
                                         soc_upper_bound=sd(b)[2], power_inclusion_lower_bound=d(b)[0],
                                         power_exclusion_lower_bound=d(b)[1], power_exclusion_upper_bound=d(b)[2],
                                         power_inclusion_upper_bound=d(b)[3]))
                           for b in mgr._bat_invs_map}
    mgr._inverter_caches = {i: cache(i, NS(component_id=i, active_power_inclusion_lower_bound=d(i)[0],
                                           active_power_exclusion_lower_bound=d(i)[1], active_power_exclusion_upper_bound=d(i)[2],
                                           active_power_inclusion_upper_bound=d(i)[3]))
                            for ii in mgr._bat_invs_map.values() for i in ii}
    mgr._component_pool_status_tracker = NS(get_working_components=lambda ids: set(working) & set(ids))
    mgr._power_distributor_exponent = 1.0
    mgr._distribution_algorithm = I.BatteryDistributionAlgorithm(1.0)
    pool = set(mgr._bat_invs_map)
    pairs = mgr._get_components_data(pool)
    mgroups = []
    for c in mlog:
        if c in bats:
            if not mgroups or mgroups[-1]["invs"]:
                mgroups.append({"bats": [], "invs": []})
            mgroups[-1]["bats"].append(c)
        else:
            mgroups[-1]["invs"].append(c)
    out["mgr_groups"] = mgroups
    if not pairs:
        out["enf"] = None
        return out, None
    eb = mgr._get_bounds(pairs)
    out["enf"] = [eb.inclusion_lower, eb.exclusion_lower, eb.exclusion_upper, eb.inclusion_upper]
    # ---- minimum powers of the groups as the distribution algorithm computes them
    alg = I.BatteryDistributionAlgorithm(1.0)
    avail = {p.battery.component_id: num(F(50)) for p in pairs}
    mp = []
    try:
        for supply in (False, True):
            _, excl = alg._inclusion_exclusion_bounds(pairs, supply=supply)
            ratios, _ = alg._compute_battery_availability_ratio(pairs, avail, excl)
            mp.append(sum(r.min_power for r in ratios))
    except ValueError:      # "All given batteries have no capacity": the algorithm has no minimum powers to report
        mp = [None, None]
    out["min_up"], out["min_down"] = mp

    def ask(p):
        P = I.Power.from_watts(num(p))
        res = {"contains": None if adv is None else (P in sb)}
        for name, adj in (("adj", True), ("noadj", False)):
            r = mgr._check_request(I.Request(power=P, component_ids=pool, adjust_power=adj), pairs)
            res[name] = "ok" if r is None else ("oob" if isinstance(r, I.OutOfBounds) else "error")
        return res

    def enter(p):
        """the manager's entry point before the API calls: BatteryManager._get_distribution(request)
        (= _get_components_data + _check_request + the distribution); judged on the RESULT TYPE"""
        from frequenz.sdk.microgrid._power_distributing._distribution_algorithm import DistributionResult
        res = {}
        for name, adj in (("adj", True), ("noadj", False)):
            coro = mgr._get_distribution(I.Request(power=I.Power.from_watts(num(p)), component_ids=pool, adjust_power=adj))
            try:
                coro.send(None)
                raise RuntimeError("_get_distribution suspended")
            except StopIteration as stop:
                r = stop.value
            if isinstance(r, DistributionResult):
                res[name], res["rem_" + name] = "dist", r.remaining_power
            else:
                res[name], res["rem_" + name] = ("oob" if isinstance(r, I.OutOfBounds) else "error"), 0
        return res
    ask.enter = enter
    return out, ask


def probe_values(case, adv, enf):
    """on, just inside, just outside every advertised bound (+ enforced exclusion bounds, zero region)"""
    ds = [fr(d) for d in case.get("deltas", [[1, 1000], [1, 1]])]
    ps = [F(0), TOL, -TOL, TOL / 10, -TOL / 10, 2 * TOL, -2 * TOL]
    if adv is not None:
        il, el, eu, iu = adv
        for b in (il, el, eu, iu):
            ps += [b] + [b + d for d in ds] + [b - d for d in ds]
        ps += [(il + el) / 2, (eu + iu) / 2, (el + eu) / 2]
    if enf is not None:
        for b in (enf[1], enf[2]):
            ps += [b] + [b + d for d in ds] + [b - d for d in ds]
    seen, out = set(), []
    for p in ps:
        if p not in seen:
            seen.add(p)
            out.append(p)
    return out


def tofr(v):
    return v.q if isinstance(v, X) else F(v)


def dyadic(case):
    for vs in case["data"].values():
        for v in vs:
            if v is not None and (v[1] & (v[1] - 1)) != 0:
                return False
    return True


def run_case(case):
    ex, ask = run_once(case, X)
    fl, fask = run_once(case, float)
    obs = {"calc_groups": ex["calc_groups"], "adv": None if ex["adv"] is None else [enc(v) for v in ex["adv"]],
           "complete": is_complete(case)}
    exact_float = dyadic(case)
    dev = []
    near = lambda a, b: (a == b) if exact_float else abs(float(a) - float(b)) <= 1e-6 * max(1.0, abs(float(a)))
    if (ex["adv"] is None) != (fl["adv"] is None) or (ex["adv"] and not all(near(tofr(a), F(b)) for a, b in zip(ex["adv"], fl["adv"]))):
        dev.append("adv")
    if "mgr_groups" in ex:
        obs["mgr_groups"] = ex["mgr_groups"]
    if ask is None:
        obs["float"] = dev
        return obs
    adv = None if ex["adv"] is None else [tofr(v) for v in ex["adv"]]
    enf = [tofr(v) for v in ex["enf"]]
    obs["enf"] = [enc(v) for v in enf]
    has_mp = ex["min_up"] is not None
    obs["min_up"], obs["min_down"] = (enc(tofr(ex["min_up"])), enc(tofr(ex["min_down"]))) if has_mp else (None, None)
    if not all(near(a, F(b)) for a, b in zip(enf, fl["enf"])):
        dev.append("enf")
    if (fl["min_up"] is None) != (not has_mp) or (has_mp and not (
            near(tofr(ex["min_up"]), F(fl["min_up"])) and near(tofr(ex["min_down"]), F(fl["min_down"])))):
        dev.append("min_power")
    probes = []
    for p in probe_values(case, adv, enf):
        r = ask(p)
        rf = fask(p)
        if r != rf:
            # dyadic data: float arithmetic is exact, verdicts must agree; otherwise only away from every bound
            bounds = (adv or []) + enf + [TOL, -TOL]
            if exact_float or not any(abs(p - b) <= F(1, 10 ** 6) * max(1, abs(b)) for b in bounds):
                dev.append(f"verdict at {p}: exact {r} float {rf}")
        probes.append({"p": enc(p), **r})
    obs["probes"] = probes
    # requests through the manager's real entry point, both values of adjust_power, for powers inside the
    # advertised bounds (bounds first: they head the probe list) and two outside
    entries = []
    if adv is not None:
        il, el, eu, iu = adv
        inside = [p for p in probe_values(case, adv, enf) if il <= p <= iu and (p <= el or p >= eu)]
        outside = [p for p in probe_values(case, adv, enf) if not (il <= p <= iu and (p <= el or p >= eu))]
        for p in inside[:10] + outside[:2]:
            r = ask.enter(p)
            entries.append({"p": enc(p), "adj": r["adj"], "noadj": r["noadj"],
                            "rem_adj": enc(tofr(r["rem_adj"])) if not _nan(r["rem_adj"]) else "nan",
                            "rem_noadj": enc(tofr(r["rem_noadj"])) if not _nan(r["rem_noadj"]) else "nan"})
    obs["entries"] = entries
    obs["float"] = dev
    return obs


def _nan(v):
    return isinstance(v, float) and v != v


# ----------------------------------------------------------------------------- oracle
def wf_inverters(case):
    """every inverter's exclusion bounds straddle zero (consistent data as in C01)"""
    for i in inverters_of(case):
        v = case["data"].get(str(i))
        if v is None or v[1] is None or v[2] is None or not (fr(v[1]) <= 0 <= fr(v[2])):
            return False
    return True


def overlapping(gs):
    """two different battery sets share a battery (the inverter-sharing relation is not transitive)"""
    sets = [frozenset(g["bats"]) for g in gs]
    return any(i < j and sets[i] & sets[j] for i in range(len(sets)) for j in range(len(sets)))


FINDING_OVERLAP = "C17-overlapping-battery-sets"


def norm_groups(gs):
    return sorted((sorted(g["bats"]), sorted(g["invs"])) for g in gs)


def spec_bounds(case, groups):
    """Documented aggregation, computed independently from the case data with Fractions:
    per battery set: inclusion = sum of the batteries' inclusion bounds, exclusion = (min lower, max upper) of
    the batteries x number of batteries (AggregatedBatteryData / _aggregate_battery_power_bounds docs);
    combined with the inverter side: inclusion (max of lowers, min of uppers), exclusion (min of lowers, max of
    uppers), inverter side = sums over the set's inverters.  Returns (per-set list, advertised sum | None,
    enforced per _get_bounds' documented formula | None)."""
    def entry(c):
        if c in case["absent"] or str(c) not in case["data"]:
            return None
        v = case["data"][str(c)]
        return None if any(x is None for x in v) else [fr(x) for x in v]
    per = []
    for g in groups:
        bb = [e for e in (entry(b) for b in g["bats"]) if e is not None]
        ib = [e for e in (entry(i) for i in g["invs"]) if e is not None]
        if not bb or not ib:
            continue
        n = len(bb)
        agg = [sum(e[0] for e in bb), n * min(e[1] for e in bb), n * max(e[2] for e in bb), sum(e[3] for e in bb)]
        inv = [sum(e[k] for e in ib) for k in range(4)]
        per.append({"agg": agg, "inv": inv,
                    "set": [max(agg[0], inv[0]), min(agg[1], inv[1]), max(agg[2], inv[2]), min(agg[3], inv[3])]})
    if not per:
        return per, None, None
    adv = [sum(x["set"][k] for x in per) for k in range(4)]
    enf = [adv[0], min(sum(x["agg"][1] for x in per), sum(x["inv"][1] for x in per)),
           max(sum(x["agg"][2] for x in per), sum(x["inv"][2] for x in per)), adv[3]]
    return per, adv, enf


def oracle_c17(case, obs):
    out = []
    hit = lambda w: out.append({"what": w, "finding": None})
    if obs.get("float"):
        hit(f"float: the float run deviates from the exact run: {obs['float'][:3]}")
    # the advertised (and enforced) bounds are the documented aggregates of the component data
    _, sadv, _ = spec_bounds(case, obs["calc_groups"])
    gadv = None if obs["adv"] is None else [fr(v) for v in obs["adv"]]
    if gadv != sadv:
        names = ("inclusion lower", "exclusion lower", "exclusion upper", "inclusion upper")
        diff = "bounds present / absent" if gadv is None or sadv is None else ", ".join(
            f"{n} {a} (documented {b})" for n, a, b in zip(names, gadv, sadv) if a != b)
        hit(f"spec: the advertised bounds differ from the documented aggregation of the battery sets {norm_groups(obs['calc_groups'])}: {diff}")
    if obs.get("enf") is not None and "mgr_groups" in obs:
        _, _, senf = spec_bounds(case, obs["mgr_groups"])
        genf = [fr(v) for v in obs["enf"]]
        if genf != senf:
            hit(f"spec: the enforced bounds {[str(v) for v in genf]} differ from the documented aggregation "
                f"{None if senf is None else [str(v) for v in senf]} of the battery sets {norm_groups(obs['mgr_groups'])}")
    if "enf" not in obs or obs.get("enf") is None:
        return out
    enf = [fr(v) for v in obs["enf"]]
    if obs["adv"] is None:
        hit("bounds: the manager has pairs to enforce bounds on but the pool advertises no bounds")
        return out
    adv = [fr(v) for v in obs["adv"]]
    if norm_groups([g for g in obs["calc_groups"] if g["bats"]]) != norm_groups(obs["mgr_groups"]):
        hit(f"grouping: calculator grouped {norm_groups(obs['calc_groups'])}, manager grouped {norm_groups(obs['mgr_groups'])}")
    il, el, eu, iu = adv
    if (il, iu) != (enf[0], enf[3]):
        hit(f"incl: advertised inclusion bounds ({il}, {iu}) differ from the enforced ({enf[0]}, {enf[3]})")
    if not (enf[2] <= eu and el <= enf[1]):
        hit(f"excl: enforced exclusion bounds ({enf[1]}, {enf[2]}) are not inside the advertised ({el}, {eu})")
    mu, mdn = fr(obs["min_up"]), fr(obs["min_down"])
    for en in obs.get("entries", []):
        p = fr(en["p"])
        if il <= p <= iu and (p <= el or p >= eu):
            for mode in ("adj", "noadj"):
                if en[mode] == "oob":
                    hit(f"reject: power {p} is inside the advertised bounds incl=({il}, {iu}) excl=({el}, {eu}) but the manager's "
                        f"_get_distribution(adjust_power={mode == 'adj'}) answered OutOfBounds (enforced {tuple(str(v) for v in enf)})")
    wfi = wf_inverters(case) and mu is not None
    for pr in obs["probes"]:
        p = fr(pr["p"])
        inside = il <= p <= iu and (p <= el or p >= eu)
        if not (inside or pr["contains"]):
            continue
        for mode in ("adj", "noadj"):
            if pr[mode] != "ok":
                hit(f"reject: power {p} is inside the advertised bounds incl=({il}, {iu}) excl=({el}, {eu}) but "
                    f"_check_request(adjust_power={mode == 'adj'}) answered {pr[mode]} (enforced {tuple(str(v) for v in enf)})")
        if wfi and abs(p) > TOL:
            need = mu if p > 0 else mdn
            if abs(p) < need:
                w = f"minpower: power {p} is inside the advertised bounds but below the sum {need} of the groups' minimum powers"
                if overlapping(obs["mgr_groups"]):
                    out.append({"what": w + " (overlapping battery sets: the algorithm keys groups by their first battery id)",
                                "finding": FINDING_OVERLAP})
                else:
                    hit(w)
    return out


# ----------------------------------------------------------------------------- Coq rendering
def c_entry(case, c):
    if c in case["absent"] or str(c) not in case["data"]:
        return "None"
    v = case["data"][str(c)]
    f = lambda x: copt(fr(x), cQ)
    return f"(Some ({f(v[0])}, {f(v[1])}, {f(v[2])}, {f(v[3])}))"


def c_pb(case, c):
    v = [fr(x) for x in case["data"][str(c)]]
    return f"(mkPB {cQ(v[0])} {cQ(v[1])} {cQ(v[2])} {cQ(v[3])})"


def c_tuple4(v):
    return "(" + ", ".join(cQ(fr(x)) for x in v) + ")"


HEADER = """From Coq Require Import QArith.
From Verif Require Import model.Common model.PoolBounds.
Open Scope Q_scope.
Definition t4_eqb (a : pb) (b : Q * Q * Q * Q) : bool :=
  let '(x1, x2, x3, x4) := b in pb_eqb a (mkPB x1 x2 x3 x4).
Definition opt4_eqb (a : option pb) (b : option (Q * Q * Q * Q)) : bool :=
  match a, b with None, None => true | Some x, Some y => t4_eqb x y | _, _ => false end.
(* (calculator-side groups, expected advertised bounds,
    manager side on complete data: groups, expected enforced bounds, expected sums of minimum powers (up, down)
    as the distribution algorithm stores them, probes: (power, (expected `in SystemBounds`,
    (accepted with adjust_power, accepted without)))) *)
Definition check (c : list group * option (Q * Q * Q * Q)
                      * option (list igroup * (Q * Q * Q * Q) * option (Q * Q) * list (Q * (bool * (bool * bool)))
                                * list (Q * (Q * Q) * (bool * bool)))) : bool :=
  let '(gs, eadv, m) := c in
  let adv := advertised gs in
  opt4_eqb adv eadv &&
  match m with
  | None => true
  | Some (igs, eenf, mp, probes, entries) =>
    let ps := map pair_of (map cg_of igs) in
    let enf := enforced ps in
    t4_eqb enf eenf &&
    match mp with
    | Some (mu, md) => Qeq_bool (min_power_keyed true (map ipair_of igs)) mu && Qeq_bool (min_power_keyed false (map ipair_of igs)) md
    | None => true     (* total capacity 0: the algorithm raises before computing minimum powers *)
    end &&
    (* _get_distribution: (power, (remainder with / without adjust_power), (distributed with / without)) *)
    forallb (fun q => let '(p, (ra, rn), (a, n)) := q in
               Bool.eqb (dist_kind_ok (get_distribution_kind true enf p ra)) a &&
               Bool.eqb (dist_kind_ok (get_distribution_kind false enf p rn)) n) entries &&
    forallb (fun q => let '(p, (c, (a, n))) := q in
               Bool.eqb (adv_contains adv p) c && Bool.eqb (check_request true enf p) a &&
               Bool.eqb (check_request false enf p) n) probes
  end.
"""


def case_term(case, obs):
    gs = "[" + "; ".join("(mkG [" + "; ".join(c_entry(case, b) for b in g["bats"]) + "] ["
                         + "; ".join(c_entry(case, i) for i in g["invs"]) + "])" for g in obs["calc_groups"]) + "]"
    eadv = "None" if obs["adv"] is None else f"(Some {c_tuple4(obs['adv'])})"
    if obs.get("enf") is None:
        return f"({gs}, {eadv}, None)"
    if any(pr["adj"] == "error" or pr["noadj"] == "error" for pr in obs["probes"]):
        return None  # an Error result has no model twin; the oracle reports it
    ipb = lambda c: f"({int(c)}%Z, {c_pb(case, c)})"
    cgs = "[" + "; ".join("([" + "; ".join(ipb(b) for b in g["bats"]) + "], ["
                          + "; ".join(ipb(i) for i in g["invs"]) + "])" for g in obs["mgr_groups"]) + "]"
    probes = "[" + "; ".join(
        f"({cQ(fr(pr['p']))}, ({cbool(bool(pr['contains']))}, ({cbool(pr['adj'] == 'ok')}, {cbool(pr['noadj'] == 'ok')})))"
        for pr in obs["probes"]) + "]"
    mp = "None" if obs["min_up"] is None else f"(Some ({cQ(fr(obs['min_up']))}, {cQ(fr(obs['min_down']))}))"
    rq = lambda v: cQ(F(0)) if v == "nan" else cQ(fr(v))
    entries = "[" + "; ".join(
        f"({cQ(fr(en['p']))}, ({rq(en['rem_adj'])}, {rq(en['rem_noadj'])}), ({cbool(en['adj'] == 'dist')}, {cbool(en['noadj'] == 'dist')}))"
        for en in obs.get("entries", []) if "error" not in (en["adj"], en["noadj"])) + "]"
    return f"({gs}, {eadv}, Some ({cgs}, {c_tuple4(obs['enf'])}, {mp}, {probes}, {entries}))"


# ----------------------------------------------------------------------------- generation
def gen_bounds(rng, grid):
    r = rng.random()
    if r < 0.08:  # inconsistent data
        return [enc(rng.choice(grid) * rng.choice([1, -1])) for _ in range(4)]
    eu = rng.choice([F(0), F(0), F(10), F(50), F(100)] + grid[:2])
    el = -rng.choice([F(0), F(0), F(10), F(50), F(100)] + grid[:2])
    iu = eu + rng.choice([F(0), F(50), F(200), F(1000)] + grid[2:])
    il = el - rng.choice([F(0), F(50), F(200), F(1000)] + grid[2:])
    return [enc(il), enc(el), enc(eu), enc(iu)]


def gen_case(rng):
    dy = rng.random() < 0.6
    grid = [F(5, 8), F(37, 4), F(123, 2), F(1001, 16)] if dy else [F(7, 3), F(10, 7), F(1000, 3), F(22, 9)]
    bats, edges, nxt = [], [], 1
    ngroups = rng.choice([1, 1, 2, 2, 3, 4])
    made = []
    for _ in range(ngroups):
        nb, ni = rng.choice([1, 1, 1, 2, 3]), rng.choice([1, 1, 2, 3])
        bs = list(range(nxt, nxt + nb)); nxt += nb
        is_ = list(range(nxt, nxt + ni)); nxt += ni
        bats += bs
        edges += [[i, b] for i in is_ for b in bs]
        made.append((bs, is_))
    extra = []
    r = rng.random()
    if r < 0.08 and len(bats) >= 2:
        # chain topology: an extra inverter shared by batteries of two different groups -> overlapping battery sets
        b1, b2 = rng.sample(bats, 2)
        edges += [[nxt, b1], [nxt, b2]]; nxt += 1
    if rng.random() < 0.1:
        bats.append(nxt); nxt += 1          # battery without inverter: dropped by the mapping code
    if rng.random() < 0.2:
        extra.append([nxt, rng.choice(bats)]); nxt += 1   # a non-inverter predecessor
    rng.shuffle(bats)
    comps = set(bats) | {i for i, _ in edges}
    data = {str(c): gen_bounds(rng, grid) for c in sorted(comps)}
    # family: shared-inverter sets whose batteries have exclusion zones NOT symmetric around zero, the largest
    # upper and the most negative lower bound on different batteries, the battery aggregate dominating the inverters
    for bs, is_ in made:
        if len(bs) >= 2 and rng.random() < 0.45:
            ups = rng.sample([F(10), F(50), F(200), F(75, 2) if not dy else F(75, 2), F(120)], len(bs))
            lows = rng.sample([F(10), F(50), F(200), F(30), F(90)], len(bs))
            hi_b = max(range(len(bs)), key=lambda k: ups[k])
            if max(range(len(bs)), key=lambda k: lows[k]) == hi_b:      # put the deepest lower bound elsewhere
                j = (hi_b + 1) % len(bs)
                lows[hi_b], lows[j] = min(lows), max(lows)
            for k, b in enumerate(bs):
                w = rng.choice([F(100), F(500), F(2000)])
                data[str(b)] = [enc(-lows[k] - w), enc(-lows[k]), enc(ups[k]), enc(ups[k] + w)]
            for i in is_:
                e = rng.choice([F(0), F(5), F(10)])
                data[str(i)] = [enc(F(-5000)), enc(-e), enc(e), enc(F(5000))]
    absent = []
    if rng.random() < 0.25:  # incomplete data: calculator-only correspondence
        for c in sorted(comps):
            r = rng.random()
            if r < 0.12:
                absent.append(c)
            elif r < 0.3:
                data[str(c)][rng.randrange(4)] = None
    working = [b for b in bats if rng.random() < 0.85]
    ds = [enc(rng.choice([F(1, 1024), F(1, 1000), F(1, 10 ** 6)])), enc(rng.choice([F(1), F(1, 2), F(17)]))]
    # capacity / SoC data of the batteries as the manager sees them: exactly on / beyond an SoC bound,
    # capacity exactly 0 or tiny, whole sets without capacity next to normal ones
    soc = {}
    for b in bats:
        lo, hi = rng.choice([F(0), F(10), F(20)]), rng.choice([F(80), F(90), F(100)])
        r = rng.random()
        cap = F(0) if r < 0.08 else (F(1, 10 ** 12) if r < 0.11 else rng.choice([F(1), F(10), F(100), F(5, 2)]))
        sv = rng.choice([lo - 5, lo, lo, lo + 1, F(50), hi - 1, hi, hi, hi + 5])
        soc[str(b)] = [enc(cap), enc(lo), enc(hi), enc(sv)]
    for bs, _ in made:
        if rng.random() < 0.08:
            for b in bs:
                soc[str(b)][0] = enc(F(0))
    return {"bats": bats, "edges": edges, "extra_pred": extra, "data": data, "absent": absent, "working": sorted(working),
            "deltas": ds, "soc": soc}


def boundary_cases():
    E = lambda *v: [enc(F(x)) for x in v]
    out = []
    # one battery, one inverter; battery tighter on one side, inverter on the other
    out.append({"bats": [1], "edges": [[2, 1]], "extra_pred": [], "data": {"1": E(-1000, -50, 30, 800), "2": E(-900, -20, 60, 1000)},
                "absent": [], "working": [1], "deltas": [[1, 1000], [1, 1]]})
    # two groups whose battery / inverter exclusion bounds dominate alternately: enforced excl strictly inside advertised
    out.append({"bats": [1, 3], "edges": [[2, 1], [4, 3]], "extra_pred": [],
                "data": {"1": E(-1000, -100, 100, 1000), "2": E(-1000, 0, 0, 1000), "3": E(-1000, 0, 0, 1000), "4": E(-1000, -100, 100, 1000)},
                "absent": [], "working": [1, 3], "deltas": [[1, 1000], [1, 1]]})
    # 2 batteries behind 2 inverters, different exclusion bounds (max * len aggregation)
    out.append({"bats": [1, 2], "edges": [[3, 1], [3, 2], [4, 1], [4, 2]], "extra_pred": [],
                "data": {"1": E(-500, -10, 10, 500), "2": E(-700, -40, 30, 600), "3": E(-400, -5, 5, 450), "4": E(-800, -25, 20, 900)},
                "absent": [], "working": [1], "deltas": [[1, 1000], [1, 1]]})
    # shared inverter, asymmetric battery exclusion zones (-50..200 and -200..50) + a plain pair
    out.append({"bats": [1, 2, 4], "edges": [[3, 1], [3, 2], [5, 4]], "extra_pred": [],
                "data": {"1": E(-1000, -50, 200, 1000), "2": E(-1000, -200, 50, 1000), "3": E(-3000, 0, 0, 3000),
                         "4": E(-1000, -50, 50, 1000), "5": E(-1000, -10, 10, 1000)},
                "absent": [], "working": [1, 2, 4], "deltas": [[1, 1000], [1, 1]]})
    # a battery exactly on its upper SoC bound next to a normal one: charging near the inclusion bound leaves a rest
    out.append({"bats": [1, 3], "edges": [[2, 1], [4, 3]], "extra_pred": [],
                "data": {"1": E(-1000, -50, 50, 1000), "2": E(-1000, 0, 0, 1000), "3": E(-1000, -50, 50, 1000), "4": E(-1000, 0, 0, 1000)},
                "soc": {"1": [[10, 1], [10, 1], [90, 1], [90, 1]], "3": [[10, 1], [10, 1], [90, 1], [50, 1]]},
                "absent": [], "working": [1, 3], "deltas": [[1, 1000], [1, 1]]})
    # a set whose batteries report capacity 0.0 (complete data, non-zero bounds) next to a normal set
    out.append({"bats": [1, 3], "edges": [[2, 1], [4, 3]], "extra_pred": [],
                "data": {"1": E(-600, -20, 20, 600), "2": E(-700, 0, 0, 700), "3": E(-1500, -50, 50, 1500), "4": E(-1600, 0, 0, 1600)},
                "soc": {"1": [[0, 1], [10, 1], [90, 1], [50, 1]], "3": [[10, 1], [10, 1], [90, 1], [50, 1]]},
                "absent": [], "working": [1, 3], "deltas": [[1, 1000], [1, 1]]})
    # one battery behind two inverters with exclusion bounds
    out.append({"bats": [1], "edges": [[2, 1], [3, 1]], "extra_pred": [],
                "data": {"1": E(-1000, -100, 100, 1000), "2": E(-600, -80, 80, 600), "3": E(-600, -90, 90, 600)},
                "absent": [], "working": [1], "deltas": [[1, 1000], [1, 1]]})
    # nothing working / no data
    out.append({"bats": [1], "edges": [[2, 1]], "extra_pred": [], "data": {"1": E(-10, 0, 0, 10), "2": E(-10, 0, 0, 10)},
                "absent": [], "working": [], "deltas": [[1, 1]]})
    out.append({"bats": [1], "edges": [[2, 1]], "extra_pred": [], "data": {"1": E(-10, 0, 0, 10), "2": E(-10, 0, 0, 10)},
                "absent": [2], "working": [1], "deltas": [[1, 1]]})
    # all-zero bounds
    out.append({"bats": [1], "edges": [[2, 1]], "extra_pred": [], "data": {"1": E(0, 0, 0, 0), "2": E(0, 0, 0, 0)},
                "absent": [], "working": [1], "deltas": [[1, 1]]})
    return out


def shrink_case(case):
    # drop a whole connected battery (with inverters that lose their last battery)
    for b in case["bats"]:
        edges = [e for e in case["edges"] if e[1] != b]
        if len(case["bats"]) > 1:
            yield {**case, "bats": [x for x in case["bats"] if x != b], "edges": edges,
                   "working": [x for x in case["working"] if x != b],
                   "extra_pred": [e for e in case.get("extra_pred", []) if e[1] != b]}
    if case.get("soc"):
        yield {k: v for k, v in case.items() if k != "soc"}
    for i in inverters_of(case):
        edges = [e for e in case["edges"] if e[0] != i]
        if edges:
            yield {**case, "edges": edges}
    used = {str(c) for c in set(case["bats"]) | set(inverters_of(case))}
    if set(case["data"]) - used:
        yield {**case, "data": {k: v for k, v in case["data"].items() if k in used}}
    if case.get("extra_pred"):
        yield {**case, "extra_pred": []}
    if case["absent"]:
        yield {**case, "absent": []}
    if len(case.get("deltas", [])) > 1:
        for d in case["deltas"]:
            yield {**case, "deltas": [d]}
    for c, vs in case["data"].items():
        for k, v in enumerate(vs):
            if v is not None and v[1] != 1:
                nv = list(vs)
                nv[k] = [round(F(v[0], v[1])), 1]
                yield {**case, "data": {**case["data"], c: nv}}


class PoolBoundsStream(Stream):
    name = "bounds"
    coq_header = HEADER
    n_quick = 500
    n_thorough = 10000

    def gen(self, rng, tier):
        yield from boundary_cases()
        n = self.n_quick if tier == "quick" else self.n_thorough
        for _ in range(n):
            yield gen_case(rng)

    def run_impl(self, case):
        try:
            return run_case(case)
        except Exception as exc:  # nothing raises on the unchanged tree; a mutant may
            return {"error": f"{type(exc).__name__}: {exc}"}

    def to_coq(self, case, obs):
        return None if "error" in obs else case_term(case, obs)

    def show_term(self, case, obs):
        t = None if "error" in obs else case_term(case, obs)
        if t is None:
            return None
        return (f"let '(gs, _, m) := {t} in (advertised gs, match m with Some (igs, _, _, probes, _) => "
                f"let cgs := map cg_of igs in "
                f"Some (enforced (map pair_of cgs), min_power_keyed true (map ipair_of igs), "
                f"min_power_keyed false (map ipair_of igs), "
                f"map (fun q => (fst q, adv_contains (advertised gs) (fst q), check_request true (enforced (map pair_of cgs)) (fst q), "
                f"check_request false (enforced (map pair_of cgs)) (fst q))) probes) | None => None end)")

    def oracle(self, case, obs):
        if "error" in obs:
            return [{"what": f"crash: calculator / manager raised {obs['error']}", "finding": None}]
        return oracle_c17(case, obs)

    def shrink(self, case):
        return shrink_case(case)

    def key(self, case, obs):
        if "error" in obs or obs["adv"] is None:
            return None
        return json.dumps([case["edges"], case["data"], case["absent"], case["working"]], sort_keys=True)

    def labels(self, case, obs):
        if "error" in obs:
            return ["impl_error"]
        out = [f"groups={len(obs['calc_groups'])}", f"batteries={len(case['bats'])}", f"inverters={len(inverters_of(case))}"]
        out.append("complete_data" if is_complete(case) else "incomplete_data")
        if obs["adv"] is None:
            out.append("no_bounds_advertised")
        if dyadic(case):
            out.append("dyadic_data(float exact)")
        if not wf_inverters(case):
            out.append("inverter_exclusion_not_straddling_zero")
        per, _, _ = spec_bounds(case, obs["calc_groups"])
        for g in obs["calc_groups"]:
            vs = [case["data"][str(b)] for b in g["bats"] if str(b) in case["data"] and all(x is not None for x in case["data"][str(b)])]
            if len(vs) >= 2:
                hi_b = max(range(len(vs)), key=lambda k: fr(vs[k][2]))
                lo_b = min(range(len(vs)), key=lambda k: fr(vs[k][1]))
                if fr(vs[hi_b][1]) != fr(vs[lo_b][1]) and fr(vs[lo_b][2]) != fr(vs[hi_b][2]):
                    out.append("set_with_max_upper_and_min_lower_exclusion_on_different_batteries")
        if any(x["agg"][1] < x["inv"][1] or x["agg"][2] > x["inv"][2] for x in per):
            out.append("battery_aggregate_dominates_inverter_exclusion")
        nb = {}
        for i, b in case["edges"]:
            nb.setdefault(i, set()).add(b)
        if any(len(v) > 1 for v in nb.values()):
            out.append("shared_inverter")
        ni = {}
        for i, b in case["edges"]:
            ni.setdefault(b, set()).add(i)
        if any(len(v) > 1 for v in ni.values()):
            out.append("battery_with_several_inverters")
        if overlapping(obs["calc_groups"]):
            out.append("overlapping_battery_sets")
        if set(case["working"]) != set(case["bats"]):
            out.append("some_not_working")
        socd = case.get("soc", {})
        if any(fr(v[0]) == 0 for v in socd.values()):
            out.append("battery_with_capacity_0")
        if any(g["bats"] and all(str(b) in socd and fr(socd[str(b)][0]) == 0 for b in g["bats"]) for g in obs.get("mgr_groups", [])):
            out.append("working_set_with_total_capacity_0")
        if any(fr(v[3]) <= fr(v[1]) or fr(v[3]) >= fr(v[2]) for v in socd.values()):
            out.append("battery_on_or_beyond_soc_bound")
        for en in obs.get("entries", []):
            for mode in ("adj", "noadj"):
                out.append(f"entry_{mode}_{en[mode]}")
                if en[mode] == "dist" and en["rem_" + mode] not in ([0, 1], "nan"):
                    out.append(f"entry_{mode}_distributed_with_remainder")
        if obs.get("enf") is not None and obs["adv"] is not None:
            adv, enf = [fr(v) for v in obs["adv"]], [fr(v) for v in obs["enf"]]
            if enf[2] < adv[2] or adv[1] < enf[1]:
                out.append("enforced_exclusion_strictly_inside_advertised")
            il, el, eu, iu = adv
            for pr in obs["probes"]:
                p = fr(pr["p"])
                inside = il <= p <= iu and (p <= el or p >= eu)
                out.append("probe_inside" if inside else "probe_outside")
                if pr["noadj"] == "oob":
                    out.append("probe_rejected_noadjust")
                if pr["adj"] == "oob":
                    out.append("probe_rejected_adjust")
                if p in adv:
                    out.append("probe_on_advertised_bound")
        return out


# ----------------------------------------------------------------------------- float summation stream
class FloatSumStream(Stream):
    """Float-only: the theorems are over Q, where the order and the algorithm of a summation do not
    matter.  In binary64 they do: PowerBoundsCalculator used to accumulate the per-set bounds with
    a naive `+=` while BatteryManager._get_bounds uses the builtin (compensated) sum(), so the
    advertised inclusion bound could be one ulp outside the enforced one (finding
    C17-float-summation-ulp, fixed).  This stream runs both real code paths on binary64 with
    non-dyadic bounds and >= 3 battery sets and demands bit-identical inclusion bounds and
    acceptance of requests exactly on the advertised bounds.  No model twin."""
    name = "floatsum"
    coq_header = ""
    n_quick = 400
    n_thorough = 6000

    def gen(self, rng, tier):
        n = self.n_quick if tier == "quick" else self.n_thorough
        for _ in range(n):
            bats, edges, data, nxt = [], [], {}, 1
            for _g in range(rng.randint(3, 9)):
                nb, ni = rng.choice([1, 1, 2, 3]), rng.choice([1, 1, 2, 3])
                bs = list(range(nxt, nxt + nb)); nxt += nb
                is_ = list(range(nxt, nxt + ni)); nxt += ni
                bats += bs
                edges += [[i, b] for i in is_ for b in bs]
                for c in bs + is_:
                    eu = F(rng.randint(0, 2000), 10)
                    iu = eu + F(rng.randint(0, 90000), rng.choice([10, 100, 7]))
                    el = -F(rng.randint(0, 2000), 10)
                    il = el - F(rng.randint(0, 90000), rng.choice([10, 100, 3]))
                    data[str(c)] = [enc(x) for x in (il, el, eu, iu)]
            rng.shuffle(bats)
            working = sorted(bats) if rng.random() < 0.7 else sorted(b for b in bats if rng.random() < 0.8)
            yield {"bats": bats, "edges": edges, "extra_pred": [], "data": data, "absent": [], "working": working, "deltas": []}

    def run_impl(self, case):
        try:
            fl, ask = run_once(case, float)
        except Exception as exc:
            return {"error": f"{type(exc).__name__}: {exc}"}
        if ask is None or fl["adv"] is None:
            return {"adv": None}
        obs = {"adv": [float(v).hex() for v in fl["adv"]], "enf": [float(v).hex() for v in fl["enf"]],
               "adv_dec": [repr(float(v)) for v in fl["adv"]], "enf_dec": [repr(float(v)) for v in fl["enf"]]}
        obs["on_lower"] = ask(F(float(fl["adv"][0])))
        obs["on_upper"] = ask(F(float(fl["adv"][3])))
        return obs

    def to_coq(self, case, obs):
        return None

    def oracle(self, case, obs):
        if "error" in obs:
            return [{"what": f"crash: calculator / manager raised {obs['error']}", "finding": None}]
        if obs.get("adv") is None:
            return []
        out = []
        a, e = [float.fromhex(v) for v in obs["adv"]], [float.fromhex(v) for v in obs["enf"]]
        if (a[0], a[3]) != (e[0], e[3]):
            out.append({"what": f"floatsum: in binary64 the advertised inclusion bounds ({a[0]!r}, {a[3]!r}) differ from the "
                                f"enforced ({e[0]!r}, {e[3]!r})", "finding": None})
        for side, pr, v in (("lower", obs["on_lower"], a[0]), ("upper", obs["on_upper"], a[3])):
            il, el, eu, iu = a
            if v != 0 and il <= v <= iu and (v <= el or v >= eu):
                for mode in ("adj", "noadj"):
                    if pr[mode] != "ok":
                        out.append({"what": f"floatreject: a request exactly on the advertised {side} inclusion bound {v!r} "
                                            f"(binary64) is answered {pr[mode]} with adjust_power={mode == 'adj'}; enforced "
                                            f"inclusion bounds ({e[0]!r}, {e[3]!r})", "finding": None})
        return out

    def key(self, case, obs):
        if "error" in obs or obs.get("adv") is None:
            return None
        return json.dumps([case["edges"], case["data"], case["working"]], sort_keys=True)

    def labels(self, case, obs):
        if "error" in obs:
            return ["impl_error"]
        if obs.get("adv") is None:
            return ["no_bounds"]
        n = len({frozenset(b for i2, b in case["edges"] if i2 in {i for i, bb in case["edges"] if bb == b0})
                 for b0 in case["working"]})
        return [f"battery_sets={n}", "non_dyadic"]

    def shrink(self, case):
        for b in case["bats"]:
            if len(case["bats"]) > 1:
                yield {**case, "bats": [x for x in case["bats"] if x != b], "edges": [e for e in case["edges"] if e[1] != b],
                       "working": [x for x in case["working"] if x != b]}


# ----------------------------------------------------------------------------- the STREAMED bounds vs the manager
# C17 is about "the bounds streamed by a battery pool".  This stream runs the real bounds stream
# (BatteryPoolReferenceStore + BatteryPool._system_power_bounds: SendOnUpdate + PowerBoundsCalculator +
# battery / inverter metric fetchers) and a BatteryManager's real data path (`_create_channels` ->
# LatestValueCache per component, `_get_components_data`, `_get_bounds`, `_check_request`) off the SAME
# fake API data channels on async_solipsism virtual time.  The working set is one value controlled by
# the harness: it is sent on the pool's status channel and answered by the manager's status tracker
# stub (in the SDK the manager's tracker is what feeds that channel).
#
# Case (JSON): {"groups": [[[battery ids], [inverter ids]], ...], "init": {"<cid>": [V, V, V, V]},
#               "script": [OP, ...], "deltas": [[n, d], ...]}
#   "consumers": n = BatteryPool instances sharing the one reference store, {"op": "request", "who": k} names one;
#   "tz": None | ["offset", minutes] | ["zone", name] = zone of the component data timestamps (None: fixed 2020 UTC
#   stamps; otherwise the current instant expressed in that aware non-UTC zone); "producer": "fresh" | "mutate"
#   OP = {"op": "status", "working": [ids]} | {"op": "request"} | {"op": "data", "id": cid, "b": [V, V, V, V]}
#      | {"op": "burst", "gap": [n, d], "ops": [OP, ...]}
#      | {"op": "drift", "id": cid, "k": 0..3, "rel": [n, d], "steps": N}   (bound k of one component moves from v0 to
#        v0 * (1 + j * rel), j = 1..N, one message every 50 virtual ms, nothing else changing meanwhile)
# After every OP: SETTLE virtual seconds, then the LATEST streamed SystemBounds is compared with what the
# manager enforces for the same latest data (and with the model on the snapshot).
S_SETTLE = 6.0
S_PERIOD = 0.5


def _stream_imports():
    import async_solipsism
    from datetime import timedelta
    from frequenz.channels import Broadcast
    from frequenz.client.microgrid import (BatteryComponentState, BatteryData, BatteryRelayState, Component,
                                           ComponentCategory, Connection, InverterComponentState, InverterData, InverterType)
    from frequenz.sdk._internal._channels import ChannelRegistry
    from frequenz.sdk.microgrid._power_distributing import ComponentPoolStatus
    from frequenz.sdk.microgrid.component_graph import _MicrogridComponentGraph
    from frequenz.sdk.timeseries.battery_pool import BatteryPool
    from frequenz.sdk.timeseries.battery_pool._battery_pool_reference_store import BatteryPoolReferenceStore
    return NS(**locals())


def stream_snapshots(case):
    """Independent bookkeeping: working set, latest data and whether the stream is requested, per step."""
    st = {"working": set(), "req": set()}
    data = {int(k): list(v) for k, v in case["init"].items()}
    allb = {b for g in case["groups"] for b in g[0]}

    def apply(op):
        k = op["op"]
        if k == "status":
            st["working"] = set(op["working"]) & allb
        elif k == "request":
            st["req"].add(op.get("who", 0))
        elif k == "data":
            data[op["id"]] = list(op["b"])
        elif k == "drift":
            v = list(data[op["id"]])
            v[op["k"]] = enc(fr(v[op["k"]]) * (1 + op["steps"] * fr(op["rel"])))
            data[op["id"]] = v
        elif k == "burst":
            for sub in op["ops"]:
                apply(sub)
    out = []
    for op in case["script"]:
        apply(op)
        out.append({"working": sorted(st["working"]), "requested": sorted(st["req"]), "data": {str(c): list(v) for c, v in data.items()},
                    "groups": [g for g in case["groups"] if set(g[0]) & st["working"]]})
    return out


def run_stream(case):
    I, J = _imports(), _stream_imports()
    bats = sorted(b for g in case["groups"] for b in g[0])
    invs = sorted(i for g in case["groups"] for i in g[1])
    comps = {J.Component(1, J.ComponentCategory.GRID), J.Component(2, J.ComponentCategory.METER)}
    conns = {J.Connection(1, 2)}
    for gb, gi in case["groups"]:
        for i in gi:
            comps.add(J.Component(i, J.ComponentCategory.INVERTER, J.InverterType.BATTERY))
            conns.add(J.Connection(2, i))
        for b in gb:
            comps.add(J.Component(b, J.ComponentCategory.BATTERY))
            conns |= {J.Connection(i, b) for i in gi}

    class Api:
        def __init__(self):
            self.ch = {}

        def chan(self, cid):
            if cid not in self.ch:
                self.ch[cid] = J.Broadcast(name=f"data-{cid}", resend_latest=False)
            return self.ch[cid]

        async def battery_data(self, cid, maxsize=50):
            return self.chan(cid).new_receiver(limit=maxsize)

        async def inverter_data(self, cid, maxsize=50):
            return self.chan(cid).new_receiver(limit=maxsize)
    api = Api()
    fake = NS(component_graph=J._MicrogridComponentGraph(comps, conns), api_client=api)

    async def scenario():
        import asyncio as aio
        loop = aio.get_running_loop()
        status = J.Broadcast(name="battery-status", resend_latest=True)
        status_tx = status.new_sender()
        unused = J.Broadcast(name="unused")
        store = J.BatteryPoolReferenceStore(
            channel_registry=J.ChannelRegistry(name="verif"), resampler_subscription_sender=unused.new_sender(),
            batteries_status_receiver=status.new_receiver(limit=1), power_manager_requests_sender=unused.new_sender(),
            power_manager_bounds_subscription_sender=unused.new_sender(), power_distribution_results_fetcher=unused,
            min_update_interval=J.timedelta(seconds=0.2), batteries_id=set(bats))
        pools = [J.BatteryPool(pool_ref_store=store, name=f"verif{k}", priority=k + 1, set_operating_point=False)
                 for k in range(case.get("consumers", 1))]
        tzspec = case.get("tz")
        if tzspec is None:
            stamp = lambda: BASE_TS_S + J.timedelta(seconds=loop.time())
        else:
            if tzspec[0] == "offset":
                tz = timezone(J.timedelta(minutes=tzspec[1]))
            else:
                from zoneinfo import ZoneInfo
                tz = ZoneInfo(tzspec[1])
            stamp = lambda: datetime.now(tz=timezone.utc).astimezone(tz)
        # the manager's real data path off the same API
        mgr = I.bm.BatteryManager.__new__(I.bm.BatteryManager)
        maps = I.bm._get_battery_inverter_mappings(set(bats))
        mgr._bat_invs_map, mgr._inv_bats_map = maps["bat_invs"], maps["inv_bats"]
        mgr._bat_bats_map, mgr._inv_invs_map = maps["bat_bats"], maps["inv_invs"]
        mgr._battery_caches, mgr._inverter_caches = {}, {}
        await mgr._create_channels()
        working = set()
        mgr._component_pool_status_tracker = NS(get_working_components=lambda ids: set(working) & set(ids))
        cur = {int(k): list(v) for k, v in case["init"].items()}
        senders = {c: api.chan(c).new_sender() for c in bats + invs}
        num = lambda v: X(fr(v))

        async def send_now(c):
            v = [num(x) for x in cur[c]]
            ts = stamp()
            if c in bats:
                await senders[c].send(J.BatteryData(
                    component_id=c, timestamp=ts, soc=X(50), soc_lower_bound=X(0), soc_upper_bound=X(100), capacity=X(1),
                    power_inclusion_lower_bound=v[0], power_exclusion_lower_bound=v[1], power_exclusion_upper_bound=v[2],
                    power_inclusion_upper_bound=v[3], temperature=20.0, relay_state=J.BatteryRelayState.CLOSED,
                    component_state=J.BatteryComponentState.IDLE, errors=[]))
            else:
                await senders[c].send(J.InverterData(
                    component_id=c, timestamp=ts, active_power=0.0, active_power_per_phase=(0.0, 0.0, 0.0), reactive_power=0.0,
                    reactive_power_per_phase=(0.0, 0.0, 0.0), current_per_phase=(0.0, 0.0, 0.0), voltage_per_phase=(0.0, 0.0, 0.0),
                    active_power_inclusion_lower_bound=v[0], active_power_exclusion_lower_bound=v[1],
                    active_power_exclusion_upper_bound=v[2], active_power_inclusion_upper_bound=v[3], frequency=50.0,
                    component_state=J.InverterComponentState.IDLE, errors=[]))

        async def streamer():
            while True:
                for c in bats + invs:
                    await send_now(c)
                await aio.sleep(S_PERIOD)

        logs = {}
        tasks = [aio.create_task(streamer())]

        async def collect(who, rx):
            log = logs[who]
            async for sb in rx:
                if sb.inclusion_bounds is None or sb.exclusion_bounds is None:
                    log.append((None, sb))
                else:
                    log.append(([enc(tofr(sb.inclusion_bounds.lower.as_watts())), enc(tofr(sb.exclusion_bounds.lower.as_watts())),
                                 enc(tofr(sb.exclusion_bounds.upper.as_watts())), enc(tofr(sb.inclusion_bounds.upper.as_watts()))], sb))

        shared = J.ComponentPoolStatus(working=set(), uncertain=set())

        async def do(op):
            k = op["op"]
            if k == "status":
                working.clear()
                working.update(set(op["working"]) & set(bats))
                if case.get("producer", "fresh") == "mutate":
                    # as the SDK's ComponentPoolStatusTracker does: ONE object, mutated in place and re-sent
                    shared.working.clear()
                    shared.working.update(op["working"])
                    await status_tx.send(shared)
                else:
                    await status_tx.send(J.ComponentPoolStatus(working=set(op["working"]), uncertain=set()))
            elif k == "request":
                who = op.get("who", 0)
                if who not in logs:
                    logs[who] = []
                    tasks.append(aio.create_task(collect(who, pools[who]._system_power_bounds.new_receiver())))
            elif k == "data":
                cur[op["id"]] = list(op["b"])
                if op.get("now", True):
                    await send_now(op["id"])
            elif k == "drift":
                c, v0 = op["id"], list(cur[op["id"]])
                for step in range(1, op["steps"] + 1):
                    v = list(v0)
                    v[op["k"]] = enc(fr(v0[op["k"]]) * (1 + step * fr(op["rel"])))
                    cur[c] = v
                    await send_now(c)
                    await aio.sleep(0.05)
            elif k == "burst":
                for sub in op["ops"]:
                    await do(sub)
                    await aio.sleep(float(fr(op["gap"])))

        checkpoints = []
        try:
            for op in case["script"]:
                await do(op)
                await aio.sleep(S_SETTLE)
                cp = {"requested": sorted(logs), "consumers": {}}
                pairs = mgr._get_components_data(set(mgr._bat_invs_map))
                enf = None
                if pairs:
                    eb = mgr._get_bounds(pairs)
                    enf = [tofr(eb.inclusion_lower), tofr(eb.exclusion_lower), tofr(eb.exclusion_upper), tofr(eb.inclusion_upper)]
                    cp["enf"] = [enc(v) for v in enf]
                else:
                    cp["enf"] = None
                for who in sorted(logs):
                    log = logs[who]
                    cc = {"adv": log[-1][0] if log else None, "emitted": len(log)}
                    if enf is not None and cc["adv"] is not None:
                        adv = [fr(v) for v in cc["adv"]]
                        sb = log[-1][1]
                        probes = []
                        for p in probe_values({"deltas": case.get("deltas", [[1, 1000], [1, 1]])}, adv, enf):
                            P = I.Power.from_watts(X(p))
                            res = {"p": enc(p), "contains": P in sb}
                            for name, adj in (("adj", True), ("noadj", False)):
                                r = mgr._check_request(I.Request(power=P, component_ids=set(mgr._bat_invs_map), adjust_power=adj), pairs)
                                res[name] = "ok" if r is None else ("oob" if isinstance(r, I.OutOfBounds) else "error")
                            probes.append(res)
                        cc["probes"] = probes
                    cp["consumers"][str(who)] = cc
                checkpoints.append(cp)
        finally:
            for t in tasks:
                t.cancel()
            await aio.gather(*tasks, return_exceptions=True)
            for c in list(mgr._battery_caches.values()) + list(mgr._inverter_caches.values()):
                await c.stop()
            await store.stop()
        return {"checkpoints": checkpoints}

    import asyncio as aio
    old = I.connection_manager._CONNECTION_MANAGER
    I.connection_manager._CONNECTION_MANAGER = fake
    try:
        with aio.Runner(loop_factory=J.async_solipsism.EventLoop) as runner:
            return runner.run(scenario())
    finally:
        I.connection_manager._CONNECTION_MANAGER = old


BASE_TS_S = datetime(2020, 1, 1, tzinfo=timezone.utc)

STREAM_HEADER = """From Coq Require Import QArith.
From Verif Require Import model.Common model.PoolBounds.
Open Scope Q_scope.
Definition t4_eqb (a : pb) (b : Q * Q * Q * Q) : bool :=
  let '(x1, x2, x3, x4) := b in pb_eqb a (mkPB x1 x2 x3 x4).
Definition opt4_eqb (a : option pb) (b : option (Q * Q * Q * Q)) : bool :=
  match a, b with None, None => true | Some x, Some y => t4_eqb x y | _, _ => false end.
(* per checkpoint: the groups with a working battery and their latest complete data; the latest
   streamed bounds if the stream is requested (outer None = not requested); what the manager enforces
   (None = no pairs); probes (power, (in SystemBounds, (accepted with adjust_power, without))) *)
Definition check1 (c : list cgroup * option (option (Q * Q * Q * Q)) * option (Q * Q * Q * Q)
                       * list (Q * (bool * (bool * bool)))) : bool :=
  let '(cgs, eadv, eenf, probes) := c in
  let adv := advertised (map wrap cgs) in
  let enf := enforced (map pair_of cgs) in
  match eadv with Some e => opt4_eqb adv e | None => true end &&
  match eenf with Some e => t4_eqb enf e | None => match cgs with [] => true | _ => false end end &&
  forallb (fun q => let '(p, (c, (a, n))) := q in
             Bool.eqb (adv_contains adv p) c && Bool.eqb (check_request true enf p) a &&
             Bool.eqb (check_request false enf p) n) probes.
Definition check (c : list (list cgroup * option (option (Q * Q * Q * Q)) * option (Q * Q * Q * Q)
                            * list (Q * (bool * (bool * bool))))) : bool := forallb check1 c.
"""


class BoundsStreamStream(Stream):
    name = "stream"
    coq_header = STREAM_HEADER
    n_quick = 100
    n_thorough = 2000

    def gen(self, rng, tier):
        for n, c in enumerate(stream_boundary_cases()):
            yield c
            if n == 0:
                yield {**c, "producer": "mutate"}
                yield {**c, "tz": ["offset", 120]}
                yield {**c, "tz": ["zone", "Asia/Kolkata"], "producer": "mutate"}
                yield {**c, "consumers": 2, "script": c["script"][:2] + [{"op": "request", "who": 1}] + c["script"][2:]}
        for _ in range(self.n_quick if tier == "quick" else self.n_thorough):
            yield gen_stream_case(rng)

    def run_impl(self, case):
        try:
            return run_stream(case)
        except Exception as exc:
            return {"error": f"{type(exc).__name__}: {exc}"}

    def to_coq(self, case, obs):
        if "error" in obs:
            return None
        items = []
        for snap, cp in zip(stream_snapshots(case), obs["checkpoints"]):
            pbq = lambda c: "(mkPB " + " ".join(cQ(fr(x)) for x in snap["data"][str(c)]) + ")"
            cgs = "[" + "; ".join("([" + "; ".join(pbq(b) for b in g[0]) + "], [" + "; ".join(pbq(i) for i in g[1]) + "])"
                                  for g in snap["groups"]) + "]"
            eenf = "None" if cp.get("enf") is None else f"(Some {c_tuple4(cp['enf'])})"
            consumers = cp["consumers"] or {"-": None}
            for who, cc in consumers.items():
                if cc is None:
                    items.append(f"({cgs}, None, {eenf}, [])")
                    continue
                eadv = "(Some None)" if cc.get("adv") is None else f"(Some (Some {c_tuple4(cc['adv'])}))"
                if any(pr["adj"] == "error" or pr["noadj"] == "error" for pr in cc.get("probes", [])):
                    return None
                probes = "[" + "; ".join(
                    f"({cQ(fr(pr['p']))}, ({cbool(bool(pr['contains']))}, ({cbool(pr['adj'] == 'ok')}, {cbool(pr['noadj'] == 'ok')})))"
                    for pr in cc.get("probes", [])) + "]"
                items.append(f"({cgs}, {eadv}, {eenf}, {probes})")
        return "[" + "; ".join(items) + "]"

    def oracle(self, case, obs):
        if "error" in obs:
            return [{"what": f"crash: pool / manager wiring raised {obs['error']}", "finding": None}]
        out = []
        hit = lambda w: out.append({"what": w, "finding": None})
        for i, (snap, cp) in enumerate(zip(stream_snapshots(case), obs["checkpoints"])):
            where = f"after step {i} ({case['script'][i]})"
            _, sadv, senf = spec_bounds({"absent": [], "data": snap["data"]}, [{"bats": g[0], "invs": g[1]} for g in snap["groups"]])
            if cp.get("enf") is not None and [fr(v) for v in cp["enf"]] != senf:
                hit(f"spec: {where} the enforced bounds {[str(fr(v)) for v in cp['enf']]} differ from the documented aggregation "
                    f"{None if senf is None else [str(v) for v in senf]} of the working sets {snap['groups']}")
            if sorted(int(k) for k in cp["consumers"]) != snap["requested"]:
                hit(f"stream: {where} consumers observed {sorted(cp['consumers'])} but requested {snap['requested']}")
            for who, cc in sorted(cp["consumers"].items()):
                wh = f"{where} consumer {who}:"
                gadv = None if cc.get("adv") is None else [fr(v) for v in cc["adv"]]
                if gadv != sadv:
                    hit(f"spec: {wh} the latest streamed bounds {None if gadv is None else [str(v) for v in gadv]} differ from the "
                        f"documented aggregation {None if sadv is None else [str(v) for v in sadv]} of the latest data of the working sets {snap['groups']}")
                if cp.get("enf") is None:
                    if gadv is not None and not snap["groups"]:
                        hit(f"stream: {wh} no battery works but the pool still streams bounds {[str(v) for v in gadv]}")
                    continue
                enf = [fr(v) for v in cp["enf"]]
                if gadv is None:
                    hit(f"stream: {wh} the manager enforces {[str(v) for v in enf]} but the pool's latest streamed bounds are None")
                    continue
                il, el, eu, iu = gadv
                if (il, iu) != (enf[0], enf[3]):
                    hit(f"stream: {wh} the latest streamed inclusion bounds ({il}, {iu}) differ from the enforced "
                        f"({enf[0]}, {enf[3]}) for the same latest data")
                if not (enf[2] <= eu and el <= enf[1]):
                    hit(f"stream: {wh} the enforced exclusion bounds ({enf[1]}, {enf[2]}) are not inside the latest streamed ({el}, {eu})")
                for pr in cc.get("probes", []):
                    p = fr(pr["p"])
                    if (il <= p <= iu and (p <= el or p >= eu)) or pr["contains"]:
                        for mode in ("adj", "noadj"):
                            if pr[mode] != "ok":
                                hit(f"stream: {wh} power {p} is inside the latest streamed bounds incl=({il}, {iu}) excl=({el}, {eu}) "
                                    f"but _check_request(adjust_power={mode == 'adj'}) answered {pr[mode]} "
                                    f"(enforced {tuple(str(v) for v in enf)})")
        return out

    def key(self, case, obs):
        if "error" in obs or not any(cc.get("adv") for cp in obs["checkpoints"] for cc in cp["consumers"].values()):
            return None
        return json.dumps(case, sort_keys=True)

    def labels(self, case, obs):
        if "error" in obs:
            return ["impl_error"]
        flat = lambda ops: [x for o in ops for x in ([o] if o["op"] != "burst" else flat(o["ops"]))]
        sc = flat(case["script"])
        out = [f"groups={len(case['groups'])}", f"steps={len(case['script'])}", f"status_producer={case.get('producer', 'fresh')}"]
        if any(len(g[0]) > 1 for g in case["groups"]):
            out.append("shared_inverter_set")
        if any(o["op"] == "burst" for o in case["script"]):
            out.append("burst")
        bset = {b for g in case["groups"] for b in g[0]}
        w = set()
        for o in sc:
            if o["op"] == "status":
                w = set(o["working"])
            if o["op"] == "drift":
                out.append(f"drift_steps>={10 ** (len(str(o['steps'])) - 1)}")
            if o["op"] == "data":
                if o["id"] in bset:
                    mates = next(set(g[0]) for g in case["groups"] if o["id"] in g[0])
                    if o["id"] not in w and (mates & w):
                        out.append("data_change_on_non_working_battery_of_a_working_set")
                    elif o["id"] in w:
                        out.append("data_change_on_working_battery")
                    else:
                        out.append("data_change_on_battery_of_idle_set")
                else:
                    out.append("data_change_on_inverter")
        for cp in obs["checkpoints"]:
            for cc in cp["consumers"].values():
                out.append("checkpoint_with_bounds" if cc.get("adv") else "checkpoint_without_bounds")
        out.append(f"consumers={case.get('consumers', 1)}")
        tzs = case.get("tz")
        out.append("timestamps=utc_2020" if tzs is None else (f"timestamps={tzs[1]}" if tzs[0] == "zone" else
                                                              f"timestamps=offset_{'east' if tzs[1] > 0 else 'west'}"))
        return out

    def shrink(self, case):
        sc = case["script"]
        for i in range(len(sc)):
            yield {**case, "script": sc[:i] + sc[i + 1:]}
        for i, o in enumerate(sc):
            if o["op"] == "burst" and len(o["ops"]) > 1:
                for j in range(len(o["ops"])):
                    yield {**case, "script": sc[:i] + [{**o, "ops": o["ops"][:j] + o["ops"][j + 1:]}] + sc[i + 1:]}
            if o["op"] == "drift" and o["steps"] > 10:
                yield {**case, "script": sc[:i] + [{**o, "steps": o["steps"] // 4}] + sc[i + 1:]}
        if len(case["groups"]) > 1:
            for gi, g in enumerate(case["groups"]):
                gone = set(g[0]) | set(g[1])
                keep = lambda o: not (o["op"] in ("data", "drift") and o["id"] in gone)
                yield {**case, "groups": case["groups"][:gi] + case["groups"][gi + 1:],
                       "init": {k: v for k, v in case["init"].items() if int(k) not in gone},
                       "script": [({**o, "ops": [x for x in o["ops"] if keep(x)]} if o["op"] == "burst" else o) for o in sc if keep(o)]}
        if len(case.get("deltas", [])) > 1:
            yield {**case, "deltas": case["deltas"][:1]}


def gen_stream_case(rng):
    grid = [F(5, 8), F(37, 4), F(7, 3), F(1000, 3)]
    groups, nxt = [], 3
    for _ in range(rng.choice([1, 1, 2, 2, 3])):
        nb, ni = rng.choice([1, 2, 2, 3]), rng.choice([1, 1, 2])
        bs = list(range(nxt, nxt + nb)); nxt += nb
        is_ = list(range(nxt, nxt + ni)); nxt += ni
        groups.append([bs, is_])
    bats = [b for g in groups for b in g[0]]
    comps = bats + [i for g in groups for i in g[1]]
    init = {str(c): gen_bounds(rng, grid) for c in comps}
    subset = lambda: sorted(b for b in bats if rng.random() < 0.6)
    script = [{"op": "request"}]
    if rng.random() < 0.9:
        script.insert(rng.randint(0, 1), {"op": "status", "working": subset()})
    for _ in range(rng.randint(2, 5)):
        r = rng.random()
        if r < 0.3:
            script.append({"op": "status", "working": subset()})
        elif r < 0.85:
            # bounds of a battery (working or not) or of an inverter change
            script.append({"op": "data", "id": rng.choice(comps if rng.random() < 0.3 else bats), "b": gen_bounds(rng, grid)})
        else:
            subs = [{"op": "status", "working": subset()} for _ in range(rng.randint(2, 3))]
            if rng.random() < 0.5:
                subs.insert(rng.randrange(len(subs) + 1), {"op": "data", "id": rng.choice(comps), "b": gen_bounds(rng, grid)})
            script.append({"op": "burst", "gap": enc(rng.choice([F(1, 100), F(1, 10)])), "ops": subs})
    if rng.random() < 0.12:
        # a bound drifting in many steps far below any plausible "noise" tolerance (thermal derating), nothing else changing
        steps = rng.choice([20, 20, 50, 50, 200, 200, 1000])
        rel = rng.choice([F(1, 10 ** 7), F(1, 2 * 10 ** 6), F(9, 10 ** 7), F(1, 10 ** 5), F(1, 10 ** 4)]) * rng.choice([1, -1, -1])
        script.append({"op": "drift", "id": rng.choice(comps if rng.random() < 0.3 else bats), "k": rng.randrange(4),
                       "rel": enc(rel), "steps": steps})
    consumers = rng.choice([1, 1, 2, 3])
    if consumers > 1:
        for k in rng.sample(range(1, consumers), consumers - 1):
            script.insert(rng.randint(0, len(script)), {"op": "request", "who": k})
        script.append({"op": "status", "working": subset()})
    r = rng.random()
    tz = None if r < 0.45 else (["offset", rng.choice([120, 60, 330, 765, -300, -480])] if r < 0.8
                                else ["zone", rng.choice(["Europe/Berlin", "Asia/Kolkata", "America/New_York"])])
    if tz is not None:
        script.append({"op": "data", "id": rng.choice(bats), "b": gen_bounds(rng, grid)})
    return {"groups": groups, "init": init, "script": script, "producer": rng.choice(["fresh", "mutate", "mutate"]),
            "consumers": consumers, "tz": tz,
            "deltas": [enc(rng.choice([F(1, 1000), F(1, 10 ** 6)])), enc(rng.choice([F(1), F(17)]))]}


def stream_boundary_cases():
    E = lambda *v: [enc(F(x)) for x in v]
    init = {"3": E(-2000, -100, 100, 2000), "4": E(-2200, -70, 70, 2200), "5": E(-5000, -50, 50, 5000)}
    S = lambda *w: {"op": "status", "working": list(w)}
    return [
        # batteries 3 and 4 share inverter 5; only 3 works; the bounds of the NOT working battery 4 change
        {"groups": [[[3, 4], [5]]], "init": init, "deltas": [[1, 1000], [1, 1]],
         "script": [S(3), {"op": "request"}, {"op": "data", "id": 4, "b": E(-1900, -170, 170, 1900)},
                    {"op": "data", "id": 5, "b": E(-3000, -20, 20, 3000)}, S(3, 4), S()]},
        # battery 3 (limiting its pair) derates its inclusion upper bound by < 1 ppm per message, 2000 messages
        {"groups": [[[3], [4]], [[6], [7]]], "deltas": [[1, 1000], [1, 1]],
         "init": {"3": E(-790, -10, 10, 790), "4": E(-2000, 0, 0, 2000), "6": E(-3500, -50, 50, 3500), "7": E(-4000, 0, 0, 4000)},
         "script": [S(3, 6), {"op": "request"}, {"op": "drift", "id": 3, "k": 3, "rel": enc(F(-9, 10 ** 7)), "steps": 2000}]},
    ]
