"""C09 — ring buffer / moving window behaves as a sliding time-indexed map."""
from __future__ import annotations

from harness import ringbuffer as R

ID = "C09"
PROPS = "props/C09.v"
NEEDS = ["rb_wrap", "rb_normalize_timestamp", "gap_contains"]

ASSUMPTIONS = [
    "every sample is later than datetime.min + capacity * period (newest == datetime.min is modelled as 'nothing written yet')",
    "datetime arithmetic does not overflow (timestamps far from datetime.min / datetime.max)",
    "to_internal_index: round(float seconds / float seconds) of a slot-aligned offset is the exact slot number (error << 0.5 for realistic epochs and periods; exercised by the correspondence with epochs around 1.7e9 s)",
    "sorted(gaps, key=start.timestamp()): float keys of distinct microsecond timestamps are distinct and ordered (true until year ~2242)",
    "serialization.dump/load, pickle and copy.deepcopy preserve the buffer state: identity in the model; exercised at every kind of point of a history (before the first update, after rejects, after far jumps, with gaps) against the model AND against the never-copied original fed the same history",
]

TRUSTED = [
    "numpy / list container semantics (both containers are driven; the model has one list of cells)",
    "independent oracle tools/harness/ringbuffer.py:SlidingMap (dict-based; slot rounding by round(Fraction))",
    "results of window() are scribbled on in place after every query (lists: overwrite/append/extend, arrays: in-place ops): later answers must not change",
    "datetime / zoneinfo arithmetic of CPython (align_to, sample and query datetimes are also stamped in fixed-offset and DST zones, "
    "windows sliding through fall-back / spring-forward transitions; the model sees instants in microseconds)",
]


def streams():
    return [R.RingStream()]


META = {
    "technique": "Coq proof: refinement of the concrete ring buffer (cells + incrementally maintained gap list + newest) to an abstract "
                 "sliding map (newest slot, slot -> last valid value); invariant preserved by update() for every history (induction over "
                 "fold_left), same rejects; count_valid / oldest / newest / count_covered / window by index and by datetime / MovingWindow.at "
                 "proved equal to the abstract observers.  Differential correspondence of the real OrderedRingBuffer (list + numpy) and "
                 "MovingWindow against the model evaluated inside Coq after every update (all observers, raw cells, gap list, random queries) "
                 "+ an independent dict-based oracle judging the property on the implementation's answers.",
    "level_text": "Machine-checked theorems (16, all closed under the global context) on a Gallina model that follows buffer.py and "
                  "MovingWindow.at/window/__getitem__ method by method (update, _update_gaps, _remove_gap, the _cleanup_gaps loop as a "
                  "structural recursion, window, _fill_gaps, _wrapped_buffer_window, count_valid, count_covered, oldest/newest_timestamp, "
                  "get_timestamp, to_internal_index, normalize_timestamp over integer microseconds).  Proved for every capacity >= 1, every "
                  "initial container content, every update history and every query: the gap list is sorted/disjoint/non-adjacent/inside the "
                  "window and marks exactly the slots without valid value; updates are rejected iff older than the window; counts and "
                  "oldest/newest agree with the map; every window()/at() answer is, slot by slot, the stored valid value or the fill, only "
                  "for slots inside both the query and [oldest valid, newest], never more slots than the (rounded) query spans, and every "
                  "value was written to that slot by the history; normalize_timestamp is the nearest slot with ties to even (even periods). "
                  "T-tie: OrderedRingBuffer.wrap, OrderedRingBuffer.normalize_timestamp and Gap.contains are regenerated from /repo on every "
                  "run (gen/RingBuffer.v) and are the functions the model computes with (`period / 2` enters normalize_timestamp as a "
                  "parameter, modelled by td_half = timedelta true division rounded half-even); everything else is tied by correspondence.",
    "level_note": "Model follows the code AFTER four fix: commits in /repo (599676e alignment point kept in UTC — align_to in a DST zone shifted slots by the offset difference; 5c62ba0 window() normalises datetimes — F11/F12; b0ce417 "
                  "MovingWindow.at gap slots / index range — F13; c194ad4 count_covered exact division — new finding).  Not proved, only "
                  "exercised by correspondence: float rounding inside to_internal_index and the sort key, numpy vs list storage, pickle "
                  "round trip, datetime.min sentinel arithmetic.  fill_value=None (raw data, documented opt-out) is modelled and compared "
                  "but the theorems and the oracle constrain only the valid slots in that mode.  At capacity 1 the far-jump branch leaves "
                  "one EMPTY range Gap(t, t) in `gaps` until the next update; it denotes no slot (invariant gaps_ok allows exactly this).  "
                  "MovingWindow is driven through buffer.update() (what _run_impl does per sample), not through a channel/event loop; "
                  "a too-old sample raising IndexError inside _run_impl (which ends the task) is outside this property.",
}
