"""C09 — ring buffer / moving window behaves as a sliding time-indexed map."""
from __future__ import annotations

from harness import ringbuffer as R

ID = "C09"
PROPS = "props/C09.v"


def streams():
    return [R.RingStream()]


META = {
    "technique": "TBD",
    "level_text": "TBD",
    "level_note": "TBD",
}
