"""C12: microgrid component trees, the real formula generators, and the Coq rendering.

A *tree* (JSON) is a list of grid successors; every node is one of
  {"k": "M", "id": i, "kids": [...], "load": w}   meter; reading = sum(kids' readings) + unmetered load w
  {"k": "B", "id": i, "bats": [ids], "p": w}      battery inverter with its batteries
  {"k": "P", "id": i, "p": w}                     PV inverter
  {"k": "E", "id": i, "p": w}                     EV charger
  {"k": "C", "id": i, "p": w}                     CHP
The grid component has id case["gid"] (default 1; 0 is a legal id).  A case is {"roots": [...], "fb": allow_fallback}.
Component ids are a generated dimension: the grid may have id 0 (only the grid: Component.is_valid),
or a larger id than its successors; ids do not grow with depth, some are sparse / large.  The model is id-agnostic.

Implementation side: the real `_MicrogridComponentGraph` is built from the tree and put behind a
stub connection manager; the real generators are run; the generated engine's *steps* (postfix) are
read back: as a signed term list (symbolic execution of the real Adder/Subtractor steps on
coefficient vectors is not possible, so the postfix is folded by step class) and as a number (the
real steps' `apply` executed on the readings of the case's power assignment).
Model side: coq/model/Graph.v.
"""
from __future__ import annotations

import itertools
import json
import sys
from datetime import datetime, timezone
from types import SimpleNamespace

from lib.core import Stream, cZ, clist, cbool

GRID_ID = 1
NONEX = sys.maxsize
KINDS = ("M", "B", "P", "E", "C")
FORMULAS = ("grid", "consumer", "producer", "battery", "pv", "pvids", "ev", "chp", "batsub", "pvsub", "evsub")


# ----------------------------------------------------------------------------- trees
def walk(nodes):
    for n in nodes:
        yield n
        if n["k"] == "M":
            yield from walk(n["kids"])


def reading(n) -> int:
    if n["k"] == "M":
        return sum(reading(k) for k in n["kids"]) + n["load"]
    return n["p"]


def readings(roots) -> dict[int, int]:
    return {n["id"]: reading(n) for n in walk(roots)}


def totals(roots) -> dict[str, int]:
    t = {"B": 0, "P": 0, "E": 0, "C": 0, "load": 0}
    for n in walk(roots):
        if n["k"] == "M":
            t["load"] += n["load"]
        else:
            t[n["k"]] += n["p"]
    return t


def kinds_below(n) -> set[str]:
    """Kinds of the device (non-meter) nodes in the subtree of n (n included)."""
    return {x["k"] for x in walk([n]) if x["k"] != "M"}


def dedicated(n) -> str | None:
    """'B'/'P'/'E'/'C' if n is a meter with >= 1 successors, all of them devices of one kind."""
    if n["k"] != "M" or not n["kids"]:
        return None
    ks = {k["k"] for k in n["kids"]}
    if len(ks) == 1 and "M" not in ks:
        return next(iter(ks))
    return None


def wf_tree(roots) -> bool:
    """The premise of C12 on a tree (mirrors `wf` of coq/model/Graph.v; used for labels and for the
    oracle's domain):  at least one grid successor; no CHP directly at the grid; every battery
    inverter has a battery; unmetered load only at meters not dedicated to one device type; every
    CHP sits below a meter dedicated to CHPs that is not the grid meter."""
    if not roots:
        return False
    single = len(roots) == 1

    def ok(n, parent, top):
        if n["k"] == "B":
            return len(n["bats"]) > 0
        if n["k"] == "C":
            return parent is not None and dedicated(parent) == "C" and not (single and parent is roots[0])
        if n["k"] == "M":
            if dedicated(n) is not None and not (top and single) and n["load"] != 0:
                return False
            return all(ok(k, n, False) for k in n["kids"])
        return True
    return all(ok(r, None, True) for r in roots)


def gid_of(case) -> int:
    g = case.get("gid")
    return GRID_ID if g is None else g


def ids_unique(roots, gid=GRID_ID) -> bool:
    """Component ids are distinct.  A battery may be connected to several inverters (shared batteries),
    so the same battery id may occur in several `bats` lists - but not twice in one, and never as the
    id of another component."""
    ids, bats = [gid], set()
    for n in walk(roots):
        ids.append(n["id"])
        if n["k"] == "B":
            if len(n["bats"]) != len(set(n["bats"])):
                return False
            bats.update(n["bats"])
    return len(ids) == len(set(ids)) and not (bats & set(ids))


# ----------------------------------------------------------------------------- real implementation
_IMP = None


def _imports():
    global _IMP
    if _IMP is None:
        import warnings
        warnings.simplefilter("ignore")
        from frequenz.channels import Broadcast
        from frequenz.client.microgrid import Component, ComponentCategory as CC, Connection, InverterType as IT
        from frequenz.quantities import Power
        from frequenz.sdk._internal._channels import ChannelRegistry
        from frequenz.sdk.microgrid import connection_manager
        from frequenz.sdk.microgrid.component_graph import _MicrogridComponentGraph
        from frequenz.sdk.timeseries._base_types import Sample
        from frequenz.sdk.timeseries.formula_engine import _formula_steps as FS
        from frequenz.sdk.timeseries.formula_engine import _formula_generators as FG
        _IMP = SimpleNamespace(Broadcast=Broadcast, Component=Component, CC=CC, Connection=Connection, IT=IT, Power=Power,
                               ChannelRegistry=ChannelRegistry, cm=connection_manager, Graph=_MicrogridComponentGraph,
                               Sample=Sample, FS=FS, FG=FG)
    return _IMP


def components_of(roots, gid=GRID_ID):
    """(components, connections) of the tree, as the microgrid API would list them."""
    I = _imports()
    comps, conns = [I.Component(gid, I.CC.GRID)], []

    def add(n, parent):
        k = n["k"]
        if k == "M":
            comps.append(I.Component(n["id"], I.CC.METER))
        elif k == "B":
            comps.append(I.Component(n["id"], I.CC.INVERTER, I.IT.BATTERY))
        elif k == "P":
            comps.append(I.Component(n["id"], I.CC.INVERTER, I.IT.SOLAR))
        elif k == "E":
            comps.append(I.Component(n["id"], I.CC.EV_CHARGER))
        elif k == "C":
            comps.append(I.Component(n["id"], I.CC.CHP))
        conns.append(I.Connection(parent, n["id"]))
        if k == "M":
            for c in n["kids"]:
                add(c, n["id"])
        if k == "B":
            for b in n["bats"]:
                comps.append(I.Component(b, I.CC.BATTERY))
                conns.append(I.Connection(n["id"], b))
    for r in roots:
        add(r, gid)
    return set(comps), set(conns)


def build_graph(roots, graph=None, gid=GRID_ID):
    """A fresh `_MicrogridComponentGraph` for the tree, or - when an existing graph OBJECT is given -
    that same object taken to the tree's topology by `refresh_from(...)`."""
    I = _imports()
    comps, conns = components_of(roots, gid)
    if graph is None:
        graph = I.Graph(comps, conns)
    else:
        graph.refresh_from(comps, conns)
    graph.validate()
    return graph


def _fold_steps(steps):
    """Fold the postfix steps of a generated engine into (terms, fetchers).  terms: {id: coeff}."""
    I = _imports()
    stack, fetchers = [], []
    for s in steps:
        if isinstance(s, I.FS.MetricFetcher):
            cid = int(repr(s).lstrip("#"))
            fetchers.append(s)
            stack.append({cid: 1})
        elif isinstance(s, (I.FS.Adder, I.FS.Subtractor)):
            b, a = stack.pop(), stack.pop()
            sg = 1 if isinstance(s, I.FS.Adder) else -1
            r = dict(a)
            for k, v in b.items():
                r[k] = r.get(k, 0) + sg * v
            stack.append(r)
        else:
            raise ValueError(f"unexpected step {type(s).__name__}")
    if len(stack) != 1:
        raise ValueError("postfix does not reduce to one value")
    return stack[0], fetchers


def _eval_steps(steps, rd):
    """Run the real steps' `apply` on the readings rd (id -> watts)."""
    I = _imports()
    ts = datetime(2020, 1, 1, tzinfo=timezone.utc)
    stack = []
    for s in steps:
        if isinstance(s, I.FS.MetricFetcher):
            cid = int(repr(s).lstrip("#"))
            v = rd.get(cid)
            s._next_value = I.Sample(ts, None if v is None else I.Power.from_watts(float(v)))
        s.apply(stack)
    assert len(stack) == 1
    v = stack[0]
    if v != v:
        return None
    assert v == int(v)
    return int(v)


def _observe(engine, rd, rd2, depth=0):
    """Terms, fallbacks and the value of a generated engine: under the readings [rd] of the case and
    under [rd2], in which every dedicated meter is offset from the sum of its successors (so that
    reading a meter instead of its successors, or the other way round, changes the number)."""
    steps = engine._builder._steps
    terms, fetchers = _fold_steps(steps)
    value = _eval_steps(steps, rd)
    value2 = _eval_steps(steps, rd2)
    out = []
    multi = len({repr(f) for f in fetchers}) != len(fetchers)
    for f in fetchers:
        cid = int(repr(f).lstrip("#"))
        fb = None
        if f._fallback is not None and depth == 0:
            sub = f._fallback._formula_generator.generate()
            fb = _observe(sub, rd, rd2, depth + 1)
        out.append({"id": cid, "c": terms.get(cid, 0), "nz": bool(f._nones_are_zeros),
                    "fb": None if fb is None else {"terms": [[t["id"], t["c"]] for t in fb["terms"]], "value": fb["value"]}})
    out.sort(key=lambda t: t["id"])
    return {"terms": out, "value": value, "value2": value2, "dup": multi}


def offset_readings(roots) -> dict[int, int]:
    """Readings in which the k-th dedicated (non-grid) meter shows 2^k MW more than its successors."""
    rd = readings(roots)
    single = len(roots) == 1
    ded = sorted(n["id"] for n in walk(roots) if dedicated(n) and not (single and n is roots[0]))
    for k, i in enumerate(ded):
        rd[i] += 10 ** 6 * 2 ** k
    return rd


def device_ids(roots):
    bats = sorted({b for n in walk(roots) if n["k"] == "B" for b in n["bats"]})
    pv = sorted(n["id"] for n in walk(roots) if n["k"] == "P")
    ev = sorted(n["id"] for n in walk(roots) if n["k"] == "E")
    return bats, pv, ev


def sel_of(case):
    """The requests of the two pool formulas: battery ids `bids` (default: every battery; the legacy key
    `bsel` = inverter ids stands for the batteries of those inverters) and PV inverter ids `psel`."""
    roots = case["roots"]
    bats, pv, _ = device_ids(roots)
    bats = sorted(set(bats))
    if case.get("bids") is not None:
        bids = sorted(set(case["bids"]) & set(bats))
    elif case.get("bsel") is not None:
        bids = sorted({b for n in walk(roots) if n["k"] == "B" and n["id"] in case["bsel"] for b in n["bats"]})
    else:
        bids = bats
    psel = case.get("psel")
    return bids, (pv if psel is None else sorted(set(psel) & set(pv)))


def esel_of(case):
    """The charger ids of the EV-charger pool formula (default: every EV charger)."""
    ev = device_ids(case["roots"])[2]
    return ev if case.get("esel") is None else sorted(set(case["esel"]) & set(ev))


def pool_inverters(roots, bids):
    """Inverters that are a predecessor of a requested battery, and whether the request is closed
    (every battery behind such an inverter is requested; otherwise the generator must refuse)."""
    inv = [n for n in walk(roots) if n["k"] == "B" and set(n["bats"]) & set(bids)]
    return inv, all(set(n["bats"]) <= set(bids) for n in inv)


def run_generators(case, graph=None):
    """All generated formulas for the tree: {name: {"terms": [...], "value": int|None} | {"error": cls}}.
    With [graph], the existing graph object is refreshed to the tree instead of building a new one."""
    I = _imports()
    roots = case["roots"]
    assert ids_unique(roots, gid_of(case)), case
    g = build_graph(roots, graph, gid_of(case))
    I.cm._CONNECTION_MANAGER = SimpleNamespace(component_graph=g, api_client=None)
    rd = readings(roots)
    rd[NONEX] = None
    for n in walk(roots):      # batteries and the grid have no power reading: None (-> nan / 0)
        if n["k"] == "B":
            for b in n["bats"]:
                rd[b] = None
    rd2 = dict(rd)
    rd2.update(offset_readings(roots))
    bats, pv, ev = device_ids(roots)
    fb = bool(case.get("fb", True))
    bids, psel = sel_of(case)
    esel = esel_of(case)
    FG = I.FG
    cfg = lambda ids=None: FG.FormulaGeneratorConfig(component_ids=ids, allow_fallback=fb)
    plan = {
        "grid": (FG.GridPowerFormula, cfg()),
        "consumer": (FG.ConsumerPowerFormula, cfg()),
        "producer": (FG.ProducerPowerFormula, cfg()),
        "battery": (FG.BatteryPowerFormula, cfg(set(bats))),
        "pv": (FG.PVPowerFormula, cfg()),
        "pvids": (FG.PVPowerFormula, cfg(set(pv))),
        "ev": (FG.EVChargerPowerFormula, cfg(set(ev))),
        "chp": (FG.CHPPowerFormula, cfg()),
        # pools over a subset: the battery ids case["bids"], the PV inverters case["psel"], the chargers case["esel"]
        "batsub": (FG.BatteryPowerFormula, cfg(set(bids))),
        "pvsub": (FG.PVPowerFormula, cfg(set(psel))),
        "evsub": (FG.EVChargerPowerFormula, cfg(set(esel))),
    }

    def generate(names, ns):
        out = {}
        for name in names:
            cls, c = plan[name]
            reg = I.ChannelRegistry(name="r")
            ch = I.Broadcast(name="req")
            try:
                eng = cls(ns, reg, ch.new_sender(), c).generate()
                out[name] = _observe(eng, rd, rd2)
            except Exception as e:  # noqa: BLE001  (the error class is the observation)
                out[name] = {"error": type(e).__name__}
        return out
    obs = generate(list(plan), "ns")
    # the same formulas once more on the SAME graph object (other namespace, other order): generation
    # must not depend on what was generated before; only what differs is recorded
    again = generate(list(reversed(list(plan))), "ns2")
    obs["_again"] = {n: again[n] for n in plan if again[n] != obs[n]}
    I.cm._CONNECTION_MANAGER = None
    return obs


# ----------------------------------------------------------------------------- the property, judged directly
def _expand(roots):
    """id -> {leaf variable: coeff}: what a reading of component id is, in terms of the device powers
    (variable = device id) and the unmetered loads (variable = -meter id)."""
    out = {}
    lv = load_vars(roots)

    def go(n):
        if n["k"] == "M":
            v = {-n["id"]: 1} if n["id"] in lv else {}
            for k in n["kids"]:
                for a, b in go(k).items():
                    v[a] = v.get(a, 0) + b
        else:
            v = {n["id"]: 1}
        out[n["id"]] = v
        return v
    for r in roots:
        go(r)
    return out


def load_vars(roots) -> set[int]:
    """Meters whose unmetered load is a free variable of the property: every meter that is not dedicated
    to one device type, the grid meter, and any meter whose load is non-zero in this case."""
    single = len(roots) == 1
    return {n["id"] for n in walk(roots) if n["k"] == "M" and
            (n["load"] != 0 or dedicated(n) is None or (single and n is roots[0]))}


def formula_vector(roots, f):
    """Coefficient vector (over device powers / unmetered loads) of an observed formula, plus the ids
    it reads that have no power stream (batteries, CHPs, the grid, unknown ids)."""
    ex = _expand(roots)
    kind = {n["id"]: n["k"] for n in walk(roots)}
    vec, bad = {}, []
    for t in f["terms"]:
        if t["id"] == NONEX:
            continue
        if t["id"] not in ex:
            bad.append(t["id"])
            continue
        if kind[t["id"]] == "C":
            bad.append(t["id"])
        for a, b in ex[t["id"]].items():
            vec[a] = vec.get(a, 0) + t["c"] * b
    return {a: b for a, b in vec.items() if b != 0}, bad


def expected_vectors(roots, case=None):
    dev = {k: {n["id"]: 1 for n in walk(roots) if n["k"] == k} for k in "BPEC"}
    bids, psel = sel_of(case or {"roots": roots})
    # the battery pool's devices: every inverter connected to a requested battery
    bsub = {n["id"]: 1 for n in pool_inverters(roots, bids)[0]}
    psub = {i: 1 for i in psel} if psel else dev["P"]     # no ids given = all PV (DFS)
    cons = {-i: 1 for i in load_vars(roots)}
    prod = {**dev["P"], **dev["C"]}
    grid = {**cons, **prod, **dev["B"], **dev["E"]}
    return {"grid": grid, "consumer": cons, "producer": prod, "battery": dev["B"], "pv": dev["P"], "pvids": dev["P"],
            "ev": dev["E"], "chp": dev["C"], "batsub": bsub, "pvsub": psub,
            "evsub": {i: 1 for i in esel_of(case or {"roots": roots})}}


def spec_sources(case) -> dict[str, dict[int, int]]:
    """Which component streams each formula is DOCUMENTED to read ({id: coefficient}), written from the
    docstrings, independently of the Coq model: a DFS-based formula reads the first component of the
    wanted chain on every path (a meter dedicated to the type counts, the grid meter does not); a formula
    over requested inverters reads, with fallback allowed, a meter dedicated to the type instead of its
    successors when ALL of them are requested, else the requested inverters; the EV-charger formula reads
    the requested chargers; the CHP formula reads the CHP meters; grid power reads the grid successors;
    consumer power reads the consumer meters minus every non-consumer chain below them."""
    roots, fb = case["roots"], bool(case.get("fb", True))
    single = len(roots) == 1
    bids, psel = sel_of(case)
    esel = esel_of(case)

    def ded(n):
        return None if (single and n is roots[0]) else dedicated(n)

    def tops(nodes, kinds):
        out = []
        for n in nodes:
            if (n["k"] != "M" and n["k"] in kinds) or (n["k"] == "M" and ded(n) is not None and ded(n) in kinds):
                out.append(n)
            elif n["k"] == "M":
                out += tops(n["kids"], kinds)
        return out

    def by_req(nodes, kind, req):
        out = []
        for n in nodes:
            if n["k"] == "M":
                if fb and ded(n) == kind and all(k["id"] in req for k in n["kids"]):
                    out.append(n)
                else:
                    out += by_req(n["kids"], kind, req)
            elif n["k"] == kind and n["id"] in req:
                out.append(n)
        return out
    plus = lambda ns: {n["id"]: 1 for n in ns}
    allbat = {n["id"] for n in walk(roots) if n["k"] == "B" and n["bats"]}
    poolb = {n["id"] for n in pool_inverters(roots, bids)[0]}
    allpv = {n["id"] for n in walk(roots) if n["k"] == "P"}
    if all(r["k"] == "M" and ded(r) is None for r in roots):
        cmeters = list(roots)
    else:
        cmeters = [r for r in roots if r["k"] == "M" and ded(r) is None]
    cons = plus(cmeters)
    for n in tops([k for m in cmeters for k in m["kids"]], "BPEC"):
        cons[n["id"]] = cons.get(n["id"], 0) - 1
    return {
        "grid": plus([r for r in roots if r["k"] != "C"]),
        "consumer": cons,
        "producer": plus(tops(roots, "PC")),
        "pv": plus(tops(roots, "P")),
        "battery": plus(by_req(roots, "B", allbat)),
        "batsub": plus(by_req(roots, "B", poolb)),
        "pvids": plus(by_req(roots, "P", allpv)),
        "pvsub": plus(by_req(roots, "P", set(psel))) if psel else plus(tops(roots, "P")),
        "ev": plus([n for n in walk(roots) if n["k"] == "E"]),
        "evsub": plus([n for n in walk(roots) if n["k"] == "E" and n["id"] in esel]),
        "chp": plus([n for n in walk(roots) if n["k"] == "M" and n["kids"] and all(k["k"] == "C" for k in n["kids"])]),
        # not documented either way for EV chargers, hence also acceptable: an EV-charger meter standing in for
        # its chargers under the general rule (fallback allowed, ALL of its successors requested)
        "ev/alt": plus(by_req(roots, "E", {n["id"] for n in walk(roots) if n["k"] == "E"})),
        "evsub/alt": plus(by_req(roots, "E", set(esel))),
    }


def judge_sources(case, obs):
    """WHICH streams the formulas read, judged on values: every dedicated meter is offset from its
    successors, so a formula that reads another source than documented evaluates differently."""
    roots = case["roots"]
    if not wf_tree(roots):
        return []
    spec = spec_sources(case)
    rd2 = offset_readings(roots)
    closed = pool_inverters(roots, sel_of(case)[0])[1]
    out = []
    for name in FORMULAS:
        f = obs[name]
        if "error" in f or (name == "batsub" and not closed):
            continue
        want = sum(c * rd2[i] for i, c in spec[name].items())
        alt = sum(c * rd2[i] for i, c in spec.get(name + "/alt", spec[name]).items())
        if f["value2"] not in (want, alt):
            got = {t["id"]: t["c"] for t in f["terms"] if t["id"] != NONEX}
            out.append({"what": f"{name}: reads other component streams than documented: with each dedicated meter offset from its "
                                f"successors it evaluates to {f['value2']} W, the documented sources {dict(sorted(spec[name].items()))} "
                                f"give {want} W (it reads {dict(sorted(got.items()))})", "finding": None})
            continue
        # a dedicated meter that stands in for its successors must name exactly them as its fallback
        kids = {n["id"]: sorted(k["id"] for k in n["kids"]) for n in walk(roots) if dedicated(n) and not (len(roots) == 1 and n is roots[0])}
        if case.get("fb", True) and name not in ("chp", "ev", "evsub"):
            for t in f["terms"]:
                if t["id"] in kids and t["c"] == 1 and name != "consumer" or (name == "consumer" and t["id"] in kids and t["c"] == -1):
                    have = None if t["fb"] is None else sorted(i for i, _ in t["fb"]["terms"])
                    if have != kids[t["id"]]:
                        out.append({"what": f"{name}: dedicated meter #{t['id']} is the primary but its fallback reads {have}, "
                                            f"its successors are {kids[t['id']]}", "finding": None})
    return out


def f9_trigger(roots) -> bool:
    """Narrow trigger of known finding F9: the consumer formula takes the no-grid-meter branch (some grid
    successor is not a meter, or is a meter dedicated to one device type) and the consumer DFS meets a
    non-dedicated meter that has a non-consumer (battery / PV / EV / CHP) descendant."""
    def are_grid_meters():
        if len(roots) == 1:
            return roots[0]["k"] == "M"
        return all(r["k"] == "M" and dedicated(r) is None for r in roots)
    if are_grid_meters():
        return False

    def hit(n):  # first non-dedicated meters met by the DFS from the grid
        if n["k"] != "M":
            return False
        if dedicated(n) is None:
            return bool(kinds_below(n))
        return False   # dedicated meter: successors are devices, DFS finds nothing below
    return any(hit(r) for r in roots)


def judge(case, obs, only_wf=True):
    """Violations of C12 visible on the implementation's formulas (exact, for all power assignments,
    because every formula is linear in the device powers and loads)."""
    roots = case["roots"]
    if only_wf and not wf_tree(roots):
        return []
    exp = expected_vectors(roots, case)
    out = []
    vecs = {}
    for name in FORMULAS:
        f = obs[name]
        if "error" in f:
            closed = pool_inverters(roots, sel_of(case)[0])[1]
            if not (name == "batsub" and not closed and f["error"] == "FormulaGenerationError"):
                out.append({"what": f"{name}: generator raised {f['error']} on a valid tree", "finding": None})
            continue
        if name == "batsub" and not pool_inverters(roots, sel_of(case)[0])[1]:
            out.append({"what": "batsub: a request that leaves out a battery behind one of its inverters was not refused", "finding": None})
            continue
        vec, bad = formula_vector(roots, f)
        vecs[name] = vec
        if bad:
            out.append({"what": f"{name}: formula reads components without a power stream: {sorted(bad)}", "finding": None})
        if vec != exp[name]:
            diff = {k: vec.get(k, 0) - exp[name].get(k, 0) for k in set(vec) | set(exp[name]) if vec.get(k, 0) != exp[name].get(k, 0)}
            out.append({"what": f"{name}: formula differs from the true total; coefficient error per device power (id) / unmetered load (-meter id): {dict(sorted(diff.items()))}",
                        "finding": None})
    if all(n in vecs for n in ("grid", "consumer", "producer", "battery", "ev")):
        s = {}
        for n in ("consumer", "producer", "battery", "ev"):
            for a, b in vecs[n].items():
                s[a] = s.get(a, 0) + b
        s = {a: b for a, b in s.items() if b != 0}
        if s != vecs["grid"]:
            diff = {k: vecs["grid"].get(k, 0) - s.get(k, 0) for k in set(s) | set(vecs["grid"]) if vecs["grid"].get(k, 0) != s.get(k, 0)}
            out.append({"what": f"balance: grid != consumer + producer + battery + ev; grid minus sum per variable: {dict(sorted(diff.items()))}",
                        "finding": None})
    return out


# ----------------------------------------------------------------------------- Coq rendering
def c_node(n) -> str:
    k = n["k"]
    if k == "M":
        return f"(Meter {cZ(n['id'])} [{'; '.join(c_node(c) for c in n['kids'])}] {cZ(n['load'])})"
    if k == "B":
        return f"(BatInv {cZ(n['id'])} {clist(n['bats'])} {cZ(n['p'])})"
    return f"({ {'P': 'PvInv', 'E': 'Ev', 'C': 'Chp'}[k]} {cZ(n['id'])} {cZ(n['p'])})"


def c_roots(roots) -> str:
    return "[" + "; ".join(c_node(r) for r in roots) + "]"


def c_formula(f) -> str:
    if "error" in f:
        return "None"
    ts = []
    for t in f["terms"]:
        if t["id"] == NONEX:
            continue
        fb = [] if t["fb"] is None else sorted(i for i, c in t["fb"]["terms"] for _ in range(abs(c)))
        ts.append(f"({cZ(t['id'])}, {cZ(t['c'])}, {cbool(t['nz'])}, {clist(fb)})")
    v = f["value"]
    return f"(Some ([{'; '.join(ts)}], {cZ(0 if v is None else v)}))"


HEADER = """From Verif Require Import model.Common model.Graph.
(* the eight generated formulas, in the order of the harness: grid, consumer, producer, battery,
   pv (DFS), pv (all inverter ids), ev, chp, battery pool over the battery ids bids,
   PV pool over the inverters psel, EV-charger pool over the chargers esel; None = the generator raises *)
Definition formulas (fb : bool) (roots : list node) (bids psel esel : list Z) : list (option (list term)) :=
  [grid_terms fb roots; Some (consumer_terms fb roots); Some (producer_terms fb roots);
   Some (battery_terms fb roots); Some (pv_terms fb roots); Some (pvids_terms fb roots);
   Some (ev_terms roots); chp_terms roots;
   battery_pool_terms fb roots bids; Some (pv_pool_terms fb roots psel); Some (ev_pool_terms roots esel)].
(* same signed terms (id, sign, nones_are_zeros, fallback ids); same number, both when summing the
   readings of the nodes the terms name and when looking the ids up in the tree *)
Definition check1 (roots : list node) (m : option (list term)) (e : option (list oterm * Z)) : bool :=
  match m, e with
  | None, None => true
  | Some ts, Some (ots, v) =>
      same_terms (map observe ts) ots && (eval ts =? v) && (eval_by_id roots (map by_id ts) =? v)
  | _, _ => false
  end.
Fixpoint check_all (roots : list node) (ms : list (option (list term))) (es : list (option (list oterm * Z))) : bool :=
  match ms, es with
  | [], [] => true
  | m :: mr, e :: er => check1 roots m e && check_all roots mr er
  | _, _ => false
  end.
(* case: tree, allow_fallback, per formula (observed terms, value computed by the real steps),
   and what the harness believes about the premise and the F9 trigger *)
Definition case_t : Type := (list node * bool * list Z * list Z * list Z * list (option (list oterm * Z)) * bool * bool)%type.
Definition check (c : case_t) : bool :=
  let '(roots, fb, bids, psel, esel, exp, py_wf, py_trig) := c in
  check_all roots (formulas fb roots bids psel esel) exp && Bool.eqb (wf roots) py_wf && Bool.eqb (f9_trigger roots) py_trig.
"""


def case_term(case, obs) -> str:
    roots = case["roots"]
    exp = "[" + "; ".join(c_formula(obs[n]) for n in FORMULAS) + "]"
    bids, psel = sel_of(case)
    return (f"(({c_roots(roots)}, {cbool(case.get('fb', True))}, {clist(bids)}, {clist(psel)}, {clist(esel_of(case))}, {exp}, "
            f"{cbool(wf_tree(roots))}, {cbool(f9_trigger(roots))}) : case_t)")


# ----------------------------------------------------------------------------- generation
SPARSE_IDS = [255, 1000, 65535, 10 ** 6, 2 ** 31 - 1]


def choose_gid(rng) -> int:
    """The id of the grid component: often 1, often 0 (a legal id), sometimes larger than its successors'."""
    return rng.choice([1, 1, 1, 0, 0, 0, 9, 1000])


def _fresh_ids(rng, n, gid=GRID_ID):
    """n distinct component ids (> 0: only the grid may be 0) different from the grid's, in no relation to
    the depth (a meter may have a larger id than its devices), occasionally sparse / large."""
    ids = rng.sample([i for i in range(1, 3 * n + 8) if i != gid], n)
    if rng.random() < 0.3:
        for j in rng.sample(range(n), min(n, rng.randint(1, 2))):
            big = rng.choice([b for b in SPARSE_IDS if b != gid and b not in ids])
            ids[j] = big
    return ids


def relabel(roots, rng, shuffle=True, gid=GRID_ID):
    """Give every component a fresh distinct id (random order, so that the iteration order of the
    implementation's sets varies), random powers and loads."""
    cnt = sum(1 + (len(n["bats"]) if n["k"] == "B" else 0) for n in walk(roots))
    ids = _fresh_ids(rng, cnt, gid) if shuffle else [i for i in range(1, cnt + 3) if i != gid][:cnt]
    it = iter(ids)
    single = len(roots) == 1

    def go(n, top):
        i = next(it)
        if n["k"] == "M":
            kids = [go(k, False) for k in n["kids"]]
            m = {"k": "M", "id": i, "kids": kids, "load": 0}
            if dedicated(m) is None or (top and single):
                m["load"] = rng.choice([0, 1, 7, 13, 40, 100, 250])
            elif n.get("badload"):
                m["load"] = rng.choice([3, 50])
            return m
        p = rng.choice([0, 1, 2, 5, 11, 30, 75, 120, 400]) * rng.choice([1, 1, -1])
        if n["k"] == "B":
            return {"k": "B", "id": i, "bats": sorted(next(it) for _ in n["bats"]), "p": p}
        return {"k": n["k"], "id": i, "p": p}
    return [go(r, True) for r in roots]


def gen_tree(rng, max_nodes=10, max_depth=4, valid=True):
    """Random tree shape: 1-3 grid successors; dedicated, mixed and load-only meters; nesting."""
    budget = [rng.choice([2, 3, 4, 5, 6, 6, 7, 7, 8, 8, 9, 9, 10, 10])]

    def dev(kinds="BPE"):
        k = rng.choice(kinds)
        budget[0] -= 1
        if k == "B":
            nb = rng.choice([1, 1, 2]) if valid or rng.random() < 0.8 else 0
            return {"k": "B", "bats": [0] * nb}
        return {"k": k}

    def meter(depth):
        budget[0] -= 1
        r = rng.random()
        m = {"k": "M", "kids": []}
        if r < 0.35 and budget[0] > 0:      # dedicated
            k = rng.choice("BPEC")
            for _ in range(rng.randint(1, min(3, budget[0]))):
                m["kids"].append(dev(k))
            if not valid and rng.random() < 0.3:
                m["badload"] = True
        elif r < 0.5 or budget[0] <= 0 or depth >= max_depth:   # load only
            pass
        else:                               # mixed
            for _ in range(rng.randint(1, min(4, budget[0]))):
                if budget[0] <= 0:
                    break
                if rng.random() < 0.45 and depth < max_depth:
                    m["kids"].append(meter(depth + 1))
                else:
                    m["kids"].append(dev("BPE" if valid else "BPEC"))
        return m
    roots = []
    nroots = rng.choice([1, 1, 2, 2, 3])
    for _ in range(nroots):
        if budget[0] <= 0 and roots:
            break
        if rng.random() < (0.95 if nroots == 1 else 0.6):
            roots.append(meter(1))
        else:
            roots.append(dev("BPE" if valid else "BPEC"))
    return roots


def _canon_forests(n, kinds="MBPEC"):
    """All unordered forests with n nodes (meters and devices), as nested tuples."""
    from functools import lru_cache

    @lru_cache(None)
    def trees(m):
        out = [(k,) for k in kinds if k != "M"] if m == 1 else []
        out += [("M",) + f for f in forest(m - 1, None)]
        return tuple(sorted(out))

    @lru_cache(None)
    def forest(m, maxtree):
        if m == 0:
            return ((),)
        out = []
        for s in range(1, m + 1):
            for t in trees(s):
                key = (s, t)
                if maxtree is not None and key > maxtree:
                    continue
                out += [(t,) + rest for rest in forest(m - s, key)]
        return tuple(out)
    return forest(n, None)


def shape_of(t):
    if t[0] == "M":
        return {"k": "M", "kids": [shape_of(c) for c in t[1:]]}
    if t[0] == "B":
        return {"k": "B", "bats": [0]}
    return {"k": t[0]}


def all_trees(max_nodes, max_roots=3):
    for n in range(1, max_nodes + 1):
        for f in _canon_forests(n):
            if len(f) <= max_roots:
                yield [shape_of(t) for t in f]


def show(roots) -> str:
    def s(n):
        if n["k"] == "M":
            return f"M{n['id']}" + (f"+{n['load']}" if n["load"] else "") + "(" + ",".join(s(k) for k in n["kids"]) + ")"
        return f"{n['k']}{n['id']}"
    return "[" + ", ".join(s(n) for n in roots) + "]"


def shrink_tree(case):
    roots = case["roots"]

    def variants(nodes):
        for i, n in enumerate(nodes):
            yield nodes[:i] + nodes[i + 1:]                      # drop a node
            if n["k"] == "M":
                yield nodes[:i] + n["kids"] + nodes[i + 1:]      # splice a meter out
                for kids in variants(n["kids"]):
                    yield nodes[:i] + [{**n, "kids": kids}] + nodes[i + 1:]
                if n["load"]:
                    yield nodes[:i] + [{**n, "load": 0}] + nodes[i + 1:]
            elif n["k"] == "B" and len(n["bats"]) > 1:
                for j in range(len(n["bats"])):
                    yield nodes[:i] + [{**n, "bats": n["bats"][:j] + n["bats"][j + 1:]}] + nodes[i + 1:]
    for r in variants(roots):
        if r:
            yield {**case, "roots": r}
    if not case.get("fb", True):
        yield {**case, "fb": True}
    for key in ("bids", "bsel", "psel", "esel"):
        if case.get(key) is not None:
            yield {k: v for k, v in case.items() if k != key}
            for i in range(len(case[key])):
                if len(case[key]) > 1:
                    yield {**case, key: case[key][:i] + case[key][i + 1:]}


def with_subsets(case, rng):
    """Choose the requests of the two pool formulas.  Battery pool: usually the batteries of a proper
    non-empty subset of the inverters, closed under sharing (every inverter of a chosen battery brings
    all its batteries); sometimes a request that is not closed (the generator must refuse it)."""
    roots = case["roots"]
    binv = [n for n in walk(roots) if n["k"] == "B" and n["bats"]]
    pv = sorted(n["id"] for n in walk(roots) if n["k"] == "P")
    if binv and rng.random() < 0.8:
        bids = set()
        for n in rng.sample(binv, rng.randint(1, len(binv))):
            bids.update(n["bats"])
        if rng.random() < 0.85:
            changed = True
            while changed:
                changed = False
                for n in binv:
                    if set(n["bats"]) & bids and not set(n["bats"]) <= bids:
                        bids.update(n["bats"])
                        changed = True
        elif len(bids) > 1 and rng.random() < 0.5:
            bids.discard(rng.choice(sorted(bids)))
        case["bids"] = sorted(bids)
    if pv and rng.random() < 0.8:
        case["psel"] = sorted(rng.sample(pv, rng.randint(1, len(pv))))
    ev = sorted(n["id"] for n in walk(roots) if n["k"] == "E")
    if ev and rng.random() < 0.8:
        case["esel"] = sorted(rng.sample(ev, rng.randint(1, len(ev))))
    return case


def share_batteries(roots, rng, p=0.5):
    """Let battery inverters below the same parent (a dedicated battery meter, a mixed meter, the grid)
    SHARE batteries: every inverter gets a random non-empty subset of the siblings' battery ids, which
    gives 1:N, N:1 and N:M cross-connections."""
    for kids in [roots] + [n["kids"] for n in walk(roots) if n["k"] == "M"]:
        inv = [n for n in kids if n["k"] == "B" and n["bats"]]
        if len(inv) >= 2 and rng.random() < p:
            pool = sorted({b for n in inv for b in n["bats"]})
            if rng.random() < 0.3:
                pool = pool[:max(1, len(pool) // 2)]
            for n in inv:
                n["bats"] = sorted(rng.sample(pool, rng.randint(1, min(len(pool), 3))))
    # occasionally a battery is shared ACROSS parents (an inverter behind a meter and one elsewhere)
    inv = [n for n in walk(roots) if n["k"] == "B" and n["bats"]]
    if len(inv) >= 2 and rng.random() < p * 0.3:
        a, b = rng.sample(inv, 2)
        b["bats"] = sorted(set(b["bats"]) | {rng.choice(a["bats"])})
    return roots


def sharing_labels(roots):
    out = []
    single = len(roots) == 1
    for kids, where in [(roots, "at_grid")] + [(n["kids"], "behind_battery_meter" if dedicated(n) == "B" and not (single and n is roots[0])
                                                 else "behind_mixed_or_grid_meter") for n in walk(roots) if n["k"] == "M"]:
        inv = [n for n in kids if n["k"] == "B"]
        cnt = {}
        for n in inv:
            for b in n["bats"]:
                cnt[b] = cnt.get(b, 0) + 1
        shared = {b for b, c in cnt.items() if c > 1}
        if shared:
            out.append(f"batteries_shared_{where}")
            if any(len(n["bats"]) > 1 and set(n["bats"]) & shared for n in inv):
                out.append("batteries_cross_connected(N:M)")
            if any(set(n["bats"]) <= shared and len(n["bats"]) == 1 for n in inv):
                out.append("inverter_with_only_a_shared_battery")
    where = {}
    for kids in [roots] + [n["kids"] for n in walk(roots) if n["k"] == "M"]:
        for n in kids:
            if n["k"] == "B":
                for b in n["bats"]:
                    where.setdefault(b, set()).add(id(kids))
    if any(len(v) > 1 for v in where.values()):
        out.append("battery_shared_across_parents")
    if any(n["k"] == "B" and len(n["bats"]) > 1 for n in walk(roots)):
        out.append("inverter_with_several_batteries(1:N)")
    return sorted(set(out))


class TreeStream(Stream):
    name = "trees"
    coq_header = HEADER
    n_quick = 1500
    n_thorough = 12000
    exhaustive_quick = 4
    exhaustive_thorough = 6

    def boundary(self):
        M = lambda i, kids, load=0: {"k": "M", "id": i, "kids": kids, "load": load}
        B = lambda i, b, p: {"k": "B", "id": i, "bats": b, "p": p}
        P = lambda i, p: {"k": "P", "id": i, "p": p}
        E = lambda i, p: {"k": "E", "id": i, "p": p}
        C = lambda i, p: {"k": "C", "id": i, "p": p}
        trees = [
            [M(2, [B(3, [4], 10), P(5, -20)], 7), P(6, -30)],                       # F9 witness (DESIGN §9)
            [M(2, [M(7, [B(3, [4], 10), P(5, -20)], 5)], 9)],                       # grid meter, nested mixed meter
            [M(2, [M(7, [M(8, [E(9, 6)], 3), C(10, 1)], 5)], 9), E(11, 2)],         # CHP below a mixed meter (outside premise)
            [M(2, [C(3, -5), C(4, -6)], 0)],                                        # grid meter with only CHPs (outside premise)
            [M(2, [P(3, -5), P(4, -6)], 12)],                                       # grid meter that looks like a PV meter
            [M(2, [P(3, -5)], 0), M(4, [B(5, [6, 7], 8), B(8, [9], 1)], 0), M(10, [], 33), M(11, [C(12, -7)], 0)],
            [M(2, [M(3, [M(4, [M(5, [E(6, 4), B(7, [8], 2)], 1)], 2)], 3)], 4), M(9, [E(10, 1)], 0)],
            [B(2, [3], 5)], [E(2, 5)], [P(2, -5)], [M(2, [], 5)], [C(2, 1)], [C(2, 1), E(3, 1)],
            [M(2, [B(3, [], 5), B(4, [5], 6)], 0), E(6, 1)],                        # inverter without battery (outside premise)
        ]
        # numbering: grid id 0 / larger than its successors; component 0; ids not increasing with depth
        for fb in (True, False):
            for gid in (0, 50):
                yield {"roots": [M(2, [P(3, -5), P(4, -6)], 12)], "fb": fb, "gid": gid}          # grid meter that looks like a PV meter
                yield {"roots": [M(20, [M(3, [P(4, -5)]), B(5, [6], 7), M(2, [E(1, 3), E(8, 4)])], 12)], "fb": fb, "gid": gid}
                yield {"roots": [M(7, [B(3, [4], 5), B(2, [1], 6)], 9)], "fb": fb, "gid": gid}
                yield {"roots": [M(30, [E(3, 5)], 0), P(2, -4)], "fb": fb, "gid": gid}
            yield {"roots": [M(5, [M(1, [P(4, -5), P(3, -1)]), E(2, 3)], 12)], "fb": fb, "gid": 0}   # component 1 is a PV meter
            yield {"roots": [M(5, [B(1, [7], 5), P(3, -1)], 12), E(2, 3)], "fb": fb, "gid": 9, "bids": [7]}
        evm = [M(2, [M(9, [E(10, 5), E(11, 7), E(12, 11)]), M(3, [B(4, [5], 10), B(6, [7], 20)]), M(8, [P(13, -1), P(14, -2)])], 3)]
        for fb in (True, False):
            yield {"roots": evm, "fb": fb, "esel": [10, 11], "psel": [13], "bids": [5]}
            yield {"roots": evm, "fb": fb, "esel": [12]}
            yield {"roots": [M(9, [E(10, 5), E(11, 7)]), E(12, 1)], "fb": fb, "esel": [10]}
        for t in trees:
            for fb in (True, False):
                yield {"roots": t, "fb": fb}
        # shared batteries: inverter 4 -> batteries 8 and 10, inverter 5 -> battery 10 only (N:M), inverter 6 -> 11;
        # behind a dedicated battery meter, behind a mixed meter, directly at the grid; N:1 and 1:N
        X = lambda: [B(4, [8, 10], 700), B(5, [10], 400), B(6, [11], 30)]
        shared = [
            [M(2, [M(3, X()), P(7, -50)], 9)],
            [M(2, [M(3, X() + [E(12, 5)], 6), P(7, -50)], 9)],
            X() + [M(3, [], 6)],
            [M(3, X())], [M(3, X()), E(7, 1)],
            [M(2, [M(3, [B(4, [8], 1), B(5, [8], 2), B(6, [8], 3)])], 9)],
            [M(2, [M(3, [B(4, [8, 9, 10], 1), B(5, [9, 11], 2), B(6, [11, 8], 3)])], 9)],
            [M(2, [M(3, [B(4, [8, 10], 700), B(5, [10], 400)]), B(6, [10, 11], 30)], 9)],   # shared across parents
            [M(3, [B(4, [8], 7)]), B(5, [8], 4)],
        ]
        for t in shared:
            for fb in (True, False):
                for bids in (None, [8, 10], [10, 8], [11], [10], [8]):
                    c = {"roots": t, "fb": fb}
                    if bids is not None:
                        c["bids"] = bids
                    yield c

    def gen(self, rng, tier):
        yield from self.boundary()
        ex = self.exhaustive_quick if tier == "quick" else self.exhaustive_thorough
        for shape in all_trees(ex):
            for fb in (True, False):
                gid = choose_gid(rng)
                yield with_subsets({"roots": share_batteries(relabel(shape, rng, gid=gid), rng, 0.4), "fb": fb, "gid": gid}, rng)
        n = self.n_quick if tier == "quick" else self.n_thorough
        for _ in range(n):
            valid = rng.random() < 0.8
            shape = gen_tree(rng, valid=valid)
            gid = choose_gid(rng)
            yield with_subsets({"roots": share_batteries(relabel(shape, rng, gid=gid), rng), "fb": rng.random() < 0.6, "gid": gid}, rng)

    def run_impl(self, case):
        return run_generators(case)

    def to_coq(self, case, obs):
        return case_term(case, obs)

    def show_term(self, case, obs):
        bids, psel = sel_of(case)
        return f"(formulas {cbool(case.get('fb', True))} {c_roots(case['roots'])} {clist(bids)} {clist(psel)} {clist(esel_of(case))}, wf {c_roots(case['roots'])}, f9_trigger {c_roots(case['roots'])})"

    def shrink(self, case):
        return shrink_tree(case)

    def key(self, case, obs):
        nodes = list(walk(case["roots"]))
        if len(nodes) < 2:
            return None

        def shape(n):
            return (n["k"], tuple(sorted(shape(k) for k in n["kids"]))) if n["k"] == "M" else (n["k"],)
        return json.dumps([sorted(shape(r) for r in case["roots"]), case.get("fb", True)])

    def labels(self, case, obs):
        roots = case["roots"]
        nodes = list(walk(roots))

        def depth(n):
            return 1 + max((depth(k) for k in n["kids"]), default=0) if n["k"] == "M" else 1
        out = [f"nodes={min(len(nodes), 12)}", f"roots={len(roots)}", f"depth={max(depth(r) for r in roots)}",
               "fallback" if case.get("fb", True) else "no_fallback",
               "premise_holds" if wf_tree(roots) else "outside_premise"]
        if len(roots) == 1 and roots[0]["k"] == "M":
            out.append("grid_meter")
        meters = [n for n in nodes if n["k"] == "M"]
        if any(dedicated(m) for m in meters):
            out.append("dedicated_meter")
        if any(not m["kids"] for m in meters):
            out.append("load_only_meter")
        if any(m["kids"] and dedicated(m) is None for m in meters):
            out.append("mixed_meter")
        if f9_trigger(roots):
            out.append("f9_shape(no grid meter, mixed meter with devices below)")
        for k in "BPEC":
            if any(n["k"] == k for n in nodes):
                out.append(f"has_{k}")
        bids, psel = sel_of(case)
        allb = {b for n in nodes if n["k"] == "B" for b in n["bats"]}
        inv, closed = pool_inverters(roots, bids)
        if bids and len(bids) < len(allb):
            out.append("battery_pool_proper_subset" if closed else "battery_pool_request_not_closed")
            sel = {n["id"] for n in inv}
            if closed and any(dedicated(m) == "B" and 0 < sum(k["id"] in sel for k in m["kids"]) < len(m["kids"]) for m in meters):
                out.append("battery_pool_subset_splits_a_dedicated_meter")
        allp = [n["id"] for n in nodes if n["k"] == "P"]
        if psel and len(psel) < len(allp):
            out.append("pv_pool_proper_subset")
            if any(dedicated(m) == "P" and 0 < sum(k["id"] in psel for k in m["kids"]) < len(m["kids"]) for m in meters):
                out.append("pv_pool_subset_splits_a_dedicated_meter")
        esel = esel_of(case)
        alle = [n["id"] for n in nodes if n["k"] == "E"]
        if esel and len(esel) < len(alle):
            out.append("ev_pool_proper_subset")
            if any(dedicated(m) == "E" and 0 < sum(k["id"] in esel for k in m["kids"]) < len(m["kids"]) for m in meters):
                out.append("ev_pool_subset_splits_a_dedicated_meter")
        out += sharing_labels(roots)
        gid = gid_of(case)
        out.append("grid_id=0" if gid == 0 else "grid_id=1" if gid == 1 else "grid_id_other")
        allids = [n["id"] for n in nodes]
        if any(i >= 255 for i in allids):
            out.append("sparse_large_ids")
        if any(k["id"] < m["id"] for m in meters for k in m["kids"]):
            out.append("meter_id_above_a_successor_id")
        if gid > min(allids):
            out.append("grid_id_above_a_component_id")
        return out


# ----------------------------------------------------------------------------- one graph object, several topologies
def _fix_loads(roots, rng):
    """Unmetered load only where the premise allows it (and keep it where it already is)."""
    single = len(roots) == 1
    for n in walk(roots):
        if n["k"] == "M":
            if dedicated(n) is not None and not (single and n is roots[0]):
                n["load"] = 0
            elif n["load"] == 0 and rng.random() < 0.6:
                n["load"] = rng.choice([1, 7, 13, 40, 100, 250])


def mutate_tree(roots, rng, graveyard, gid=GRID_ID):
    """A neighbouring topology that re-uses the component ids: devices added / removed / moved below
    meters, a device changing its kind under the same id, a meter added / removed, the grid meter added /
    removed.  [graveyard] collects ids that disappeared, to be re-used (possibly in another role) later."""
    import copy
    roots = copy.deepcopy(roots)

    def used():
        u = {gid}
        for n in walk(roots):
            u.add(n["id"])
            if n["k"] == "B":
                u.update(n["bats"])
        return u

    def fresh(avoid=()):
        taken = used() | set(avoid)
        cand = [i for i in graveyard if i not in taken]
        if cand and rng.random() < 0.7:
            i = rng.choice(cand)
            while i in graveyard:
                graveyard.remove(i)
            return i
        if rng.random() < 0.25:     # e.g. a grid meter that appears later with a larger id than what is below it
            big = [b for b in [20, 99] + SPARSE_IDS if b not in taken and b not in graveyard]
            if big:
                return rng.choice(big)
        return next(i for i in range(1, 500) if i not in taken and i not in graveyard)

    def power():
        return rng.choice([1, 2, 5, 11, 30, 75, 120, 400]) * rng.choice([1, 1, -1])

    def new_dev(kind):
        i = fresh()
        if kind == "B":
            return {"k": "B", "id": i, "bats": [fresh([i])], "p": power()}
        return {"k": kind, "id": i, "p": power()}

    def places():       # every list that holds nodes: the grid's successors and every meter's kids
        return [roots] + [n["kids"] for n in walk(roots) if n["k"] == "M"]

    def bury(n):
        for x in walk([n]):
            graveyard.append(x["id"])
            if x["k"] == "B":
                graveyard.extend(x["bats"])

    for _ in range(rng.choice([1, 1, 2, 3])):
        op = rng.choice(["add", "add", "remove", "move", "kind", "wrap", "unwrap", "meter", "add_same", "share"])
        meters = [n for n in walk(roots) if n["k"] == "M"]
        if op == "add":
            rng.choice(places()).append(new_dev(rng.choice("BPE")))
        elif op == "add_same":          # one more device of the type a dedicated meter already has
            ded = [m for m in meters if dedicated(m)]
            if ded:
                m = rng.choice(ded)
                m["kids"].append(new_dev(dedicated(m)))
        elif op == "share":             # two sibling inverters get a common battery / lose the sharing
            cand = [[n for n in p if n["k"] == "B" and n["bats"]] for p in places()]
            cand = [c for c in cand if len(c) >= 2]
            if cand:
                a, b = rng.sample(rng.choice(cand), 2)
                if set(a["bats"]) & set(b["bats"]):
                    b["bats"] = [fresh()]
                else:
                    b["bats"] = sorted(set(b["bats"]) | {rng.choice(a["bats"])}) if rng.random() < 0.5 else [rng.choice(a["bats"])]
        elif op == "remove":
            pl = [p for p in places() if p and not (p is roots and len(roots) == 1)]
            if pl:
                p = rng.choice(pl)
                bury(p.pop(rng.randrange(len(p))))
        elif op == "move":
            src = [p for p in places() if any(n["k"] != "M" for n in p) and not (p is roots and len(roots) == 1)]
            if src:
                p = rng.choice(src)
                i = rng.choice([j for j, n in enumerate(p) if n["k"] != "M"])
                n = p.pop(i)
                rng.choice(places()).append(n)
        elif op == "kind":              # same id, other role
            devs = [n for n in walk(roots) if n["k"] in "BPE"]
            if devs:
                n = rng.choice(devs)
                k = rng.choice([x for x in "BPE" if x != n["k"]])
                if n["k"] == "B":
                    graveyard.extend(n.pop("bats"))
                if k == "B":
                    n["bats"] = [fresh()]
                n["k"] = k
        elif op == "wrap":              # a grid meter appears
            if not (len(roots) == 1 and roots[0]["k"] == "M"):
                roots[:] = [{"k": "M", "id": fresh(), "kids": list(roots), "load": 0}]
        elif op == "unwrap":            # the grid meter disappears
            if len(roots) == 1 and roots[0]["k"] == "M" and roots[0]["kids"]:
                graveyard.append(roots[0]["id"])
                roots[:] = roots[0]["kids"]
        elif op == "meter":
            empty = [(p, j) for p in places() for j, n in enumerate(p) if n["k"] == "M" and not n["kids"]
                     and not (p is roots and len(roots) == 1)]
            if empty and rng.random() < 0.5:
                p, j = rng.choice(empty)
                bury(p.pop(j))
            else:
                rng.choice(places()).append({"k": "M", "id": fresh(), "kids": [], "load": 0})
    _fix_loads(roots, rng)
    return roots


REFRESH_HEADER = HEADER + """
(* one graph object taken through several topologies: after every refresh the generated formulas
   must be the ones of the CURRENT topology *)
Definition check_seq (cs : list case_t) : bool := forallb check cs.
"""


class RefreshStream(Stream):
    """One `_MicrogridComponentGraph` OBJECT is built for the first topology and taken through the
    following ones with `refresh_from(...)`; all formulas are generated for every topology (so whatever
    the graph object remembers gets populated before the refresh) and compared, per topology, with the
    model and the oracle of the current topology."""
    name = "refresh"
    coq_header = REFRESH_HEADER
    check_fn = "check_seq"
    n_quick = 350
    n_thorough = 4000

    def boundary(self):
        M = lambda i, kids, load=0: {"k": "M", "id": i, "kids": kids, "load": load}
        B = lambda i, b, p: {"k": "B", "id": i, "bats": b, "p": p}
        P = lambda i, p: {"k": "P", "id": i, "p": p}
        E = lambda i, p: {"k": "E", "id": i, "p": p}
        C = lambda i, p: {"k": "C", "id": i, "p": p}
        seqs = [
            # dedicated PV meter 3 -> mixed meter 3 (EV charger + load)
            [[M(2, [M(3, [P(4, -20)]), B(5, [6], 10)], 7)], [M(2, [M(3, [P(4, -20), E(7, 9)], 13), B(5, [6], 10)], 7)]],
            # mixed -> dedicated (battery), without grid meter
            [[M(3, [B(4, [5], 10), E(7, 9)], 13), P(8, -3)], [M(3, [B(4, [5], 10)]), P(8, -3), E(7, 9)]],
            # grid meter added, then removed again
            [[M(3, [P(4, -20)]), E(5, 6)], [M(2, [M(3, [P(4, -20)]), E(5, 6)], 11)], [M(3, [P(4, -20)]), E(5, 6)]],
            # the grid meter stops being the grid meter (sibling appears): it becomes a PV meter
            [[M(3, [P(4, -20), P(5, -1)], 0)], [M(3, [P(4, -20), P(5, -1)], 0), E(6, 2)], [M(3, [P(4, -20), P(5, -1)], 9)]],
            # same id, other role: inverter 4 PV -> EV charger 4; meter 3 PV meter -> EV meter
            [[M(2, [M(3, [P(4, -20)]), M(8, [C(9, -4)])], 1)], [M(2, [M(3, [E(4, 20)]), M(8, [C(9, -4)])], 1)]],
            # device removed below a mixed meter -> dedicated; battery pool subset across the refresh
            [[M(2, [M(3, [B(4, [5], 10), B(6, [7], 20), P(8, -2)], 4)], 1)], [M(2, [M(3, [B(4, [5], 10), B(6, [7], 20)])], 1)]],
        ]
        for seq in seqs:
            for fb in (True, False):
                yield {"steps": [{"roots": t, "fb": fb} for t in seq]}
        yield {"steps": [{"roots": seqs[5][0], "fb": True, "bsel": [4]}, {"roots": seqs[5][1], "fb": True, "bsel": [4]},
                         {"roots": seqs[5][1], "fb": True}]}
        # a battery becomes shared by a second inverter across a refresh, and is unshared again
        s1 = [M(2, [M(3, [B(4, [8, 10], 700), B(5, [11], 400)])], 9)]
        s2 = [M(2, [M(3, [B(4, [8, 10], 700), B(5, [10], 400)])], 9)]
        for fb in (True, False):
            yield {"steps": [{"roots": s1, "fb": fb}, {"roots": s2, "fb": fb}, {"roots": s1, "fb": fb, "bids": [11]}]}

    def gen(self, rng, tier):
        yield from self.boundary()
        n = self.n_quick if tier == "quick" else self.n_thorough
        for _ in range(n):
            fb = rng.random() < 0.7
            gid = choose_gid(rng)
            t = share_batteries(relabel(gen_tree(rng, max_nodes=7, valid=rng.random() < 0.9), rng, gid=gid), rng, 0.4)
            grave = []
            steps = [with_subsets({"roots": t, "fb": fb, "gid": gid}, rng)]
            for _k in range(rng.choice([1, 2, 2])):
                t = mutate_tree(t, rng, grave, gid)
                steps.append(with_subsets({"roots": t, "fb": fb, "gid": gid}, rng))
            yield {"steps": steps}

    def run_impl(self, case):
        graph, out = None, []
        for st in case["steps"]:
            assert ids_unique(st["roots"], gid_of(st)), st
            if graph is None:
                graph = build_graph(st["roots"], None, gid_of(st))
            out.append(run_generators(st, graph))
        return out

    def to_coq(self, case, obs):
        return "[" + "; ".join(case_term(st, o) for st, o in zip(case["steps"], obs)) + "]"

    def show_term(self, case, obs):
        parts = []
        for st in case["steps"]:
            bids, psel = sel_of(st)
            parts.append(f"formulas {cbool(st.get('fb', True))} {c_roots(st['roots'])} {clist(bids)} {clist(psel)} {clist(esel_of(st))}")
        return "[" + "; ".join(parts) + "]"

    def shrink(self, case):
        steps = case["steps"]
        if len(steps) > 1:
            for i in range(len(steps)):
                yield {**case, "steps": steps[:i] + steps[i + 1:]}
        for i, st in enumerate(steps):
            for cand in shrink_tree(st):
                if ids_unique(cand["roots"], gid_of(cand)):
                    yield {**case, "steps": steps[:i] + [cand] + steps[i + 1:]}

    def key(self, case, obs):
        def shape(n):
            return (n["k"], n["id"], tuple(sorted(shape(k) for k in n["kids"]))) if n["k"] == "M" else (n["k"], n["id"])
        return json.dumps([sorted(shape(r) for r in st["roots"]) for st in case["steps"]])

    def labels(self, case, obs):
        steps = case["steps"]
        out = [f"topologies={len(steps)}", "premise_holds_throughout" if all(wf_tree(s["roots"]) for s in steps) else "some_outside_premise"]
        for a, b in zip(steps, steps[1:]):
            ka = {n["id"]: (n["k"], dedicated(n), tuple(sorted(k["id"] for k in n["kids"])) if n["k"] == "M" else None) for n in walk(a["roots"])}
            kb = {n["id"]: (n["k"], dedicated(n), tuple(sorted(k["id"] for k in n["kids"])) if n["k"] == "M" else None) for n in walk(b["roots"])}
            gma = len(a["roots"]) == 1 and a["roots"][0]["k"] == "M"
            gmb = len(b["roots"]) == 1 and b["roots"][0]["k"] == "M"
            if gma != gmb:
                out.append("grid_meter_added" if gmb else "grid_meter_removed")
            for i in set(ka) & set(kb):
                if ka[i][0] != kb[i][0]:
                    out.append("same_id_other_kind")
                elif ka[i][0] == "M":
                    if ka[i][1] and not kb[i][1]:
                        out.append("meter_dedicated_to_mixed_or_empty")
                    if not ka[i][1] and kb[i][1]:
                        out.append("meter_becomes_dedicated")
                    if ka[i][1] and kb[i][1] and ka[i][1] != kb[i][1]:
                        out.append("meter_dedicated_to_other_type")
                    if ka[i][2] != kb[i][2]:
                        out.append("meter_successors_changed")
            if set(kb) - set(ka):
                out.append("component_added")
            if set(ka) - set(kb):
                out.append("component_removed")
            sa, sb = sharing_labels(a["roots"]), sharing_labels(b["roots"])
            if any("shared" in x for x in sb) and not any("shared" in x for x in sa):
                out.append("battery_becomes_shared")
            if any("shared" in x for x in sa) and not any("shared" in x for x in sb):
                out.append("battery_no_longer_shared")
        for st in steps:
            out += sharing_labels(st["roots"])
        return sorted(set(out))
