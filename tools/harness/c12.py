"""C12 — generated microgrid power formulas balance for every topology."""
from __future__ import annotations

from harness import graph as G

ID = "C12"
PROPS = "props/C12.v"


class C12Stream(G.TreeStream):
    def oracle(self, case, obs):
        roots = case["roots"]
        out = G.judge(case, obs)                      # the totals + the balance, for all power assignments
        if not G.wf_tree(roots):
            return out
        out += G.judge_sources(case, obs)             # which streams are read (dedicated meters offset)
        # generating the same formulas again on the same graph object must give the same formulas
        for name, f2 in sorted(obs.get("_again", {}).items()):
            o2 = {**obs, name: f2}
            why = [v["what"] for v in G.judge(case, o2) + G.judge_sources(case, o2) if v["what"].startswith(name + ":")]
            out.append({"what": f"{name}: generated a second time on the same graph object it is a different formula"
                                + (f" - and a wrong one: {why[0][len(name) + 2:]}" if why else
                                   f": first {self._brief(obs[name])}, then {self._brief(f2)}"), "finding": None})
        # the number the real steps compute on this power assignment
        t = G.totals(roots)
        want = {"grid": t["load"] + t["P"] + t["C"] + t["B"] + t["E"], "consumer": t["load"], "producer": t["P"] + t["C"],
                "battery": t["B"], "pv": t["P"], "pvids": t["P"], "ev": t["E"], "chp": t["C"]}
        bids, psel = G.sel_of(case)
        want["batsub"] = sum(n["p"] for n in G.pool_inverters(roots, bids)[0])
        want["pvsub"] = sum(n["p"] for n in G.walk(roots) if n["k"] == "P" and (n["id"] in psel or not psel))
        esel = G.esel_of(case)
        want["evsub"] = sum(n["p"] for n in G.walk(roots) if n["k"] == "E" and n["id"] in esel)
        for name in G.FORMULAS:
            f = obs[name]
            if "error" not in f and f["value"] != want[name]:
                out.append({"what": f"{name}: evaluates to {f['value']} W, true total {want[name]} W", "finding": None})
            # the fallback formula of a meter dedicated to one device type must stand in for it: same value
            if "error" not in f:
                rd = G.readings(roots)
                ded = {n["id"] for n in G.walk(roots) if G.dedicated(n) and not (len(roots) == 1 and n is roots[0])}
                for term in f["terms"]:
                    if term["fb"] is not None and term["id"] in ded and term["fb"]["value"] != rd.get(term["id"]):
                        out.append({"what": f"{name}: fallback of #{term['id']} evaluates to {term['fb']['value']} W, "
                                            f"primary reads {rd.get(term['id'])} W", "finding": None})
        return out


class C12RefreshStream(G.RefreshStream):
    """The property judged on every topology the one graph object is taken through."""
    _one = C12Stream()

    def oracle(self, case, obs):
        out = []
        n = len(case["steps"])
        for i, (st, o) in enumerate(zip(case["steps"], obs)):
            for v in self._one.oracle(st, o):
                name, rest = v["what"].split(":", 1)
                where = "freshly built graph" if i == 0 else f"same graph object after refresh_from #{i}"
                out.append({"what": f"{name}: [topology {i + 1} of {n}, {where}]{rest}", "finding": v["finding"]})
        return out


def _brief(f):
    if "error" in f:
        return f["error"]
    return " ".join(f"{'+' if t['c'] > 0 else '-'}#{t['id']}" + (f"(fallback {[i for i, _ in t['fb']['terms']]})" if t["fb"] else "")
                    for t in f["terms"]) or "0"


C12Stream._brief = staticmethod(_brief)


def streams():
    return [C12Stream(), C12RefreshStream()]


ASSUMPTIONS = [
    "component graphs are trees (every component has one predecessor); ids are distinct",
    "premise wf: >= 1 grid successor, no CHP directly at the grid, every battery inverter has a battery, unmetered load only at "
    "meters not dedicated to one device type, every CHP below a meter dedicated to CHPs that is not at the same time the grid meter",
    "all component streams deliver a value (missing samples / NaN are C13's subject)",
]

META = {
    "technique": "Coq proof (structural induction over component trees with a nested induction principle for the list of "
                 "successors) about a Gallina model of the classification predicates, the stopping DFS, fallback selection and "
                 "the formula generators + differential correspondence: the real generators run on the real "
                 "_MicrogridComponentGraph built from each tree, their postfix steps are read back as signed term lists and "
                 "executed (the real steps' apply) on a power assignment, and compared with the model evaluated inside Coq "
                 "(vm_compute)",
    "level_text": "Machine-checked theorems (closed under the global context), for every tree satisfying the premise and every "
                  "power assignment: PV (DFS and pool entry points), EV, CHP and battery formulas equal the device totals; battery "
                  "and PV pools over any subset of inverters equal the total of exactly the requested ones; consumer equals the "
                  "sum of unmetered loads; producer = PV + CHP; grid = consumer + producer + battery + EV; the fallback formula "
                  "of a dedicated meter equals the meter; no grid/consumer/producer term reads a CHP itself; with distinct ids, "
                  "evaluation by id lookup equals evaluation of the named nodes. The model is tied to the code by correspondence "
                  "(term lists incl. nones_are_zeros and fallback ids, numeric value) on all trees up to 4 (quick) / 6 (thorough) "
                  "nodes and random trees up to 10 nodes / depth 4, inside and outside the premise, with and without fallback, "
                  "with random pool subsets; the property itself is judged exactly (coefficient vectors over device powers and "
                  "loads, i.e. for all power assignments) on the implementation's formulas.",
    "level_note": "Trusted: Coq kernel + vm_compute, the harness (tree -> ComponentGraph builder, reading the engine's steps, "
                  "generator coverage), networkx. Modelled, not proved: Python's dict/set keyed by Component is modelled "
                  "compositionally on trees (a dedicated meter occurs once as primary; a device found by a DFS is never paired "
                  "with its predecessor because the DFS stops there) - tied by correspondence only. Trees only: a component with "
                  "two predecessors is outside the premise. A CHP below the grid meter itself (grid -> meter -> CHPs only) is "
                  "outside the premise: consumer/producer formulas then read the CHP component, which has no power stream "
                  "(Example C12_chp_below_grid_meter_is_read_directly). NaN/None handling of missing samples is C13's subject. "
                  "Shared batteries: battery inverters below the same parent may share batteries (1:N, N:1, N:M; behind a "
                  "battery meter, a mixed meter, at the grid); the model keeps batteries as ids inside BatInv and assumes "
                  "nothing about disjointness, the battery theorems sum inverter powers, and a battery pool is requested by "
                  "battery ids (defined iff every inverter of a requested battery has all its batteries requested). "
                  "EV-charger pools over a subset of the chargers are generated, modelled (ev_pool_terms) and judged. "
                  "WHICH streams a formula reads is judged on values too: every formula is also evaluated with each dedicated "
                  "meter offset from the sum of its successors and compared with the documented choice of sources "
                  "(graph.spec_sources, written from the docstrings independently of the Coq model; for EV chargers both the "
                  "chargers and - under the all-successors-requested rule - their meter are accepted), and a dedicated meter used "
                  "as primary must name exactly its successors as fallback. Every formula is generated twice per graph object "
                  "(other namespace, reverse order) and must come out the same. "
                  "Statefulness of the graph OBJECT (anything it remembers across refresh_from) is not in the model, which is "
                  "per topology; it is tied by the `refresh` stream, which takes one graph object through 2-3 topologies that "
                  "re-use the component ids and compares all formulas with the model/oracle of the current topology each time. "
                  "Two defects were found and fixed in /repo (F9, F9b in known_findings.json).",
}
