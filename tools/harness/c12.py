"""C12 — generated microgrid power formulas balance for every topology."""
from __future__ import annotations

from harness import graph as G

ID = "C12"
PROPS = "props/C12.v"


class C12Stream(G.TreeStream):
    def oracle(self, case, obs):
        roots = case["roots"]
        out = G.judge(case, obs)                      # the seven totals + the balance, for all power assignments
        if not G.wf_tree(roots):
            return out
        # the number the real steps compute on this power assignment
        t = G.totals(roots)
        want = {"grid": t["load"] + t["P"] + t["C"] + t["B"] + t["E"], "consumer": t["load"], "producer": t["P"] + t["C"],
                "battery": t["B"], "pv": t["P"], "pvids": t["P"], "ev": t["E"], "chp": t["C"]}
        bsel, psel = G.sel_of(case)
        want["batsub"] = sum(n["p"] for n in G.walk(roots) if n["k"] == "B" and n["id"] in bsel)
        want["pvsub"] = sum(n["p"] for n in G.walk(roots) if n["k"] == "P" and (n["id"] in psel or not psel))
        for name in G.FORMULAS:
            f = obs[name]
            if "error" not in f and f["value"] != want[name]:
                out.append({"what": f"{name}: evaluates to {f['value']} W, true total {want[name]} W", "finding": None})
            # the fallback formula of a meter dedicated to one device type must stand in for it: same value
            if "error" not in f:
                rd = G.readings(roots)
                ded = {n["id"] for n in G.walk(roots) if G.dedicated(n) and not (len(roots) == 1 and n is roots[0])}
                for term in f["terms"]:
                    if term["fb"] is not None and term["id"] in ded and term["fb"]["value"] != rd.get(term["id"]):
                        out.append({"what": f"{name}: fallback of #{term['id']} evaluates to {term['fb']['value']} W, "
                                            f"primary reads {rd.get(term['id'])} W", "finding": None})
        return out


def streams():
    return [C12Stream()]


META = {
    "technique": "Coq proof (structural induction over component trees with a nested induction principle for the list of "
                 "successors) about a Gallina model of the classification predicates, the stopping DFS, fallback selection and "
                 "the eight formula generators + differential correspondence: the real generators run on the real "
                 "_MicrogridComponentGraph built from each tree, their postfix steps are read back as signed term lists and "
                 "executed on a power assignment, and compared with the model evaluated inside Coq (vm_compute)",
    "level_text": "Machine-checked theorems (closed under the global context), for every tree satisfying the premise and every "
                  "power assignment: PV (both entry points), EV, CHP and battery formulas equal the device totals, consumer equals "
                  "the sum of unmetered loads, producer = PV + CHP, grid = consumer + producer + battery + EV; every fallback "
                  "formula equals its primary. The model is tied to the code by correspondence on all trees up to 4 (quick) / "
                  "6 (thorough) nodes and random trees up to 10 nodes / depth 4, inside and outside the premise, with and "
                  "without fallback; the property itself is judged exactly (coefficient vectors over device powers and loads) "
                  "on the implementation's formulas.",
    "level_note": "Trusted: Coq kernel + vm_compute, the harness (tree -> ComponentGraph builder, reading the engine's steps, "
                  "generator coverage), networkx. Modelled, not proved: Python's dict/set keyed by Component is modelled on trees "
                  "with distinct ids (a dedicated meter occurs once as primary); a term reads the node it names. Trees only: a "
                  "component with two predecessors is outside the premise. Premise: unmetered load only at meters not dedicated "
                  "to one device type, every battery inverter has a battery, every CHP sits below a meter dedicated to CHPs that "
                  "is not at the same time the grid meter (otherwise the consumer/producer formulas read the CHP itself, which "
                  "has no power stream). NaN/None handling of missing samples is C13's subject, not modelled here.",
}
