"""C01 / C02 `manager` stream: the real BatteryManager around the distribution algorithm.

One long-lived `BatteryManager` (`__new__` + injected maps, mutable fake data caches, a fake status
tracker, a fake API client that records every `set_power` call and always succeeds) is fed a SEQUENCE of
battery / inverter data updates (fresh timestamp on one side only, on both, or an equal timestamp with new
values) and power requests of both signs, inside and beyond the inclusion bounds, in both `adjust_power`
modes, through the public `distribute_power`.  Everything runs on `lib.exact.X` rationals.

Observation per request: the Result the manager sent (kind, succeeded power, excess power), the recorded
set_power calls, and the order in which the manager visited its battery sets (frozenset iteration order, taken
from the cache reads: an explicit input of the model).
Model twin: coq/model/DistMgr.v `manager_request` applied to the LATEST data delivered before the request.
Oracle: the clauses of C01 / C02 (harness.dist.clauses) judged on the set_power calls and the Result against the
latest data."""
from __future__ import annotations

import asyncio
import json
from datetime import datetime, timedelta, timezone
from fractions import Fraction as F
from types import SimpleNamespace as NS

from lib.core import Stream, cZ
from lib.exact import X
from harness import dist as D

T0 = datetime(2024, 1, 1, tzinfo=timezone.utc)


def _imports():
    from frequenz.quantities import Power
    from frequenz.sdk.microgrid import connection_manager
    from frequenz.sdk.microgrid._power_distributing._component_managers import _battery_manager as bm
    from frequenz.sdk.microgrid._power_distributing._distribution_algorithm import BatteryDistributionAlgorithm
    from frequenz.sdk.microgrid._power_distributing.request import Request
    from frequenz.sdk.microgrid._power_distributing import result as R
    return NS(Power=Power, cm=connection_manager, bm=bm, Alg=BatteryDistributionAlgorithm, Request=Request, R=R)


# ----------------------------------------------------------------------------- fakes
class Cache:
    """stands for LatestValueCache: the latest delivered sample (or none yet); logs every read"""
    def __init__(self, cid, log):
        self.cid, self.log, self.value = cid, log, None

    def has_value(self):
        return self.value is not None

    def get(self):
        self.log.append(self.cid)
        return self.value


class _GrpcErr:
    """stand-in for grpc.aio.AioRpcError, only what the exception constructor reads"""
    def code(self):
        return NS(name="OUT_OF_RANGE", value=(11, "out of range"))

    def details(self):
        return "out of range"

    def debug_error_string(self):
        return ""


# per-inverter outcome of set_power: 0 accepted, 1 OperationOutOfRange, 2 other ApiClientError, 4 no reply (timeout)
FAULT_NAMES = {0: "Accounting.OOk", 1: "Accounting.ORange", 2: "Accounting.OClient", 4: "Accounting.OTimeout"}


class Api:
    def __init__(self):
        self.calls, self.faults = [], {}
        self.latency, self.acked, self.on_first_call = 0.0, set(), None
        self.lat = {}        # per-inverter acknowledge latency (concurrent requests), else self.latency

    async def set_power(self, component_id, power):
        from frequenz.client.microgrid import ApiClientError, OperationOutOfRange
        self.calls.append((component_id, power))
        if self.on_first_call is not None:      # what the caller does while the API round trip is in flight
            hook, self.on_first_call = self.on_first_call, None
            hook()
        o = self.faults.get(component_id, 0)
        if o == 1:
            raise OperationOutOfRange(server_url="fake", operation="set_power", grpc_error=_GrpcErr())
        if o == 2:
            raise ApiClientError(server_url="fake", operation="set_power", description="scripted", retryable=False)
        if o == 4:
            await asyncio.Event().wait()       # never replies: the manager's timeout cancels the task
        lat = self.lat.get(component_id, self.latency)
        if lat:
            await asyncio.sleep(lat)           # the acknowledge takes a while; failures above are reported at once
        self.acked.add(component_id)


class Tracker:
    def __init__(self, **kwargs):
        pass

    def get_working_components(self, ids):
        return set(ids)

    async def update_status(self, succeeded, failed):
        return None

    async def stop(self):
        return None


class Sender:
    def __init__(self):
        self.msgs = []

    async def send(self, msg):
        self.msgs.append(msg)


def bat_obj(cid, d, ts):
    return NS(component_id=cid, timestamp=T0 + timedelta(seconds=ts), capacity=X(D.fr(d["cap"])), soc=X(D.fr(d["soc"])),
              soc_lower_bound=X(D.fr(d["lo"])), soc_upper_bound=X(D.fr(d["hi"])),
              power_inclusion_lower_bound=X(D.fr(d["il"])), power_exclusion_lower_bound=X(D.fr(d["el"])),
              power_exclusion_upper_bound=X(D.fr(d["eu"])), power_inclusion_upper_bound=X(D.fr(d["iu"])))


def inv_obj(cid, d, ts):
    return NS(component_id=cid, timestamp=T0 + timedelta(seconds=ts),
              active_power_inclusion_lower_bound=X(D.fr(d["il"])), active_power_exclusion_lower_bound=X(D.fr(d["el"])),
              active_power_exclusion_upper_bound=X(D.fr(d["eu"])), active_power_inclusion_upper_bound=X(D.fr(d["iu"])))


def make_manager(case, I):
    api, log = Api(), []
    I.cm._CONNECTION_MANAGER = NS(api_client=api, component_graph=None)
    m = I.bm.BatteryManager.__new__(I.bm.BatteryManager)
    bat_invs, inv_bats, bat_bats, inv_invs = {}, {}, {}, {}
    for g in case["groups"]:
        bs, ivs = frozenset(g["bats"]), frozenset(g["invs"])
        for b in bs:
            bat_invs[b], bat_bats[b] = ivs, bs
        for i in ivs:
            inv_bats[i], inv_invs[i] = bs, ivs
    m._bat_invs_map, m._inv_bats_map, m._bat_bats_map, m._inv_invs_map = bat_invs, inv_bats, bat_bats, inv_invs
    m._battery_ids = set(bat_invs)
    m._battery_caches = {b: Cache(b, log) for b in bat_invs}
    m._inverter_caches = {i: Cache(i, log) for i in inv_bats}
    m._component_pool_status_tracker = Tracker()
    m._results_sender = Sender()
    m._api_power_request_timeout = timedelta(seconds=5.0)
    m._power_distributor_exponent = 1.0
    m._distribution_algorithm = I.Alg(m._power_distributor_exponent)
    return m, api, log


# ----------------------------------------------------------------------------- construction through the real start-up code
class LoggedCache:
    """wraps a real LatestValueCache AFTER the real wiring was done: only logs the reads"""
    def __init__(self, cid, real, log):
        self.cid, self.real, self.log = cid, real, log

    def has_value(self):
        return self.real.has_value()

    def get(self):
        self.log.append(self.cid)
        return self.real.get()

    async def stop(self):
        await self.real.stop()


class StreamApi(Api):
    """fake microgrid API client whose data streams are real frequenz.channels Broadcast channels"""
    def __init__(self):
        super().__init__()
        self.chans, self.senders = {}, {}

    def _recv(self, kind, cid):
        from frequenz.channels import Broadcast
        key = (kind, cid)
        if key not in self.chans:
            self.chans[key] = Broadcast(name=f"{kind}_{cid}")
            self.senders[key] = self.chans[key].new_sender()
        return self.chans[key].new_receiver(limit=50)

    async def battery_data(self, component_id):
        return self._recv("bat", component_id)

    async def inverter_data(self, component_id):
        await asyncio.sleep(0)      # a real API call yields to the loop
        return self._recv("inv", component_id)


class Graph:
    """the three component-graph queries BatteryManager.__init__ / _get_battery_inverter_mappings use"""
    def __init__(self, case, I):
        from frequenz.client.microgrid import ComponentCategory
        self.cat = ComponentCategory
        self.groups = case["groups"]

    def _c(self, cid, cat):
        from collections import namedtuple
        return namedtuple("Comp", "component_id category")(cid, cat)

    def components(self, component_ids=None, component_categories=None):
        return {self._c(b, self.cat.BATTERY) for g in self.groups for b in g["bats"]}

    def predecessors(self, cid):
        return {self._c(i, self.cat.INVERTER) for g in self.groups if cid in g["bats"] for i in g["invs"]}

    def successors(self, cid):
        return {self._c(b, self.cat.BATTERY) for g in self.groups if cid in g["invs"] for b in g["bats"]}


async def make_manager_startup(case, I):
    """real BatteryManager.__init__ (maps from the component graph; only the health tracker class is replaced, its
    subject is C16) -> real start() / _create_channels -> real LatestValueCache objects on real channels"""
    api, log = StreamApi(), []
    I.cm._CONNECTION_MANAGER = NS(api_client=api, component_graph=Graph(case, I))
    real_tracker = I.bm.ComponentPoolStatusTracker
    I.bm.ComponentPoolStatusTracker = Tracker
    try:
        m = I.bm.BatteryManager(component_pool_status_sender=Sender(), results_sender=Sender(),
                                api_power_request_timeout=timedelta(seconds=5.0))
    finally:
        I.bm.ComponentPoolStatusTracker = real_tracker
    await m.start()
    m._battery_caches = {c: LoggedCache(c, r, log) for c, r in m._battery_caches.items()}
    m._inverter_caches = {c: LoggedCache(c, r, log) for c, r in m._inverter_caches.items()}
    return m, api, log


def run_sequence(case):
    """drive one manager through the whole sequence; one observation per request"""
    import async_solipsism
    I = _imports()
    old = I.cm._CONNECTION_MANAGER
    loop = async_solipsism.EventLoop()
    out = []
    try:
        asyncio.set_event_loop(loop)
        startup = bool(case.get("startup"))
        if startup:
            m, api, log = loop.run_until_complete(make_manager_startup(case, I))
        else:
            m, api, log = make_manager(case, I)
        m._api_power_request_timeout = timedelta(seconds=float(D.fr(case.get("timeout", 5))))

        async def deliver(st):
            # every sample is sent on the stream of the component it belongs to
            for cid, d in st["bats"]:
                await api.senders[("bat", cid)].send(bat_obj(cid, d, st["ts"]))
            for cid, d in st["invs"]:
                await api.senders[("inv", cid)].send(inv_obj(cid, d, st["ts"]))
            for _ in range(4):
                await asyncio.sleep(0)
        for st in case["steps"]:
            if st["t"] == "data":
                if startup:
                    loop.run_until_complete(deliver(st))
                    continue
                for cid, d in st["bats"]:
                    m._battery_caches[cid].value = bat_obj(cid, d, st["ts"] if "ts" not in d else d["ts"])
                for cid, d in st["invs"]:
                    m._inverter_caches[cid].value = inv_obj(cid, d, st["ts"] if "ts" not in d else d["ts"])
                continue
            subs = [st["a"], st["b"]] if st["t"] == "req2" else [st]
            del log[:]
            api.calls.clear()
            api.faults = {int(i): int(c) for sub in subs for i, c in sub.get("faults", [])}
            api.latency, api.lat, api.acked = 0.0, {}, set()
            reqs = []
            for sub in subs:
                gis = sub.get("sets", list(range(len(case["groups"]))))
                ids = {b for gi in gis for b in case["groups"][gi]["bats"]}
                for gi in gis:
                    for i in case["groups"][gi]["invs"]:
                        api.lat[i] = float(D.fr(sub.get("latency", 0)))
                reqs.append(I.Request(power=I.Power.from_watts(X(D.fr(sub["power"]))), component_ids=ids, adjust_power=bool(sub["adjust"])))
            n0 = len(m._results_sender.msgs)
            api.on_first_call = None
            if "mutate_to" in subs[0]:           # the caller re-uses the Request object for its next request
                def _mutate(req=reqs[0], p2=subs[0]["mutate_to"]):
                    req.power = I.Power.from_watts(X(D.fr(p2)))
                api.on_first_call = _mutate

            async def submit():
                # one request, or two requests for disjoint battery sets in flight together on the one manager
                await asyncio.gather(*[m.distribute_power(r) for r in reqs])
            raised = None
            try:
                loop.run_until_complete(submit())
            except Exception as exc:  # noqa: BLE001 - part of the observation
                raised = "raise:" + type(exc).__name__
            msgs = m._results_sender.msgs[n0:]
            loop.run_until_complete(asyncio.sleep(6.0))     # let whatever is still in flight reach the hardware
            for sub, req in zip(subs, reqs):
                gis = sub.get("sets", list(range(len(case["groups"]))))
                own_invs = {i for gi in gis for i in case["groups"][gi]["invs"]}
                own_bats = {b for gi in gis for b in case["groups"][gi]["bats"]}
                o = {"kind": raised, "calls": None, "succ": None, "excess": None, "failed_power": None, "order": [], "n_results": 0}
                if raised is not None:
                    out.append(o)
                    continue
                mine = [r for r in msgs if getattr(r, "request", None) is req]
                o["acked"] = sorted(api.acked & own_invs)
                o["n_results"] = len(mine)
                o["calls"] = sorted([int(c), D.js(p)] for c, p in api.calls if c in own_invs)
                # order in which the manager visited its battery sets: first battery read of each set
                seen = []
                for cid in log:
                    for gi, g in enumerate(case["groups"]):
                        if cid in g["bats"] and cid in own_bats and gi not in seen:
                            seen.append(gi)
                o["order"] = seen
                if len(mine) == 1:
                    r = mine[0]
                    o["kind"] = type(r).__name__
                    if isinstance(r, (I.R.Success, I.R.PartialFailure)):
                        o["succ"] = D.js(r.succeeded_power.as_watts())
                        o["excess"] = D.js(r.excess_power.as_watts())
                        o["succ_components"] = sorted(r.succeeded_components)
                    if isinstance(r, I.R.PartialFailure):
                        o["failed_power"] = D.js(r.failed_power.as_watts())
                        o["failed_components"] = sorted(r.failed_components)
                else:
                    o["kind"] = f"results:{len(mine)}"
                out.append(o)
        if startup:
            loop.run_until_complete(m.stop())
    finally:
        asyncio.set_event_loop(None)
        loop.close()
        I.cm._CONNECTION_MANAGER = old
    return {"reqs": out}


# ----------------------------------------------------------------------------- independent bookkeeping
def latest_views(case):
    """for every request step: the latest data per component delivered before it"""
    bats, invs, views = {}, {}, []
    for st in case["steps"]:
        if st["t"] == "data":
            for cid, d in st["bats"]:
                bats[cid] = d
            for cid, d in st["invs"]:
                invs[cid] = d
        elif st["t"] == "req2":
            views.append((dict(bats), dict(invs), {**st["a"], "t": "req", "concurrent": "first"}))
            views.append((dict(bats), dict(invs), {**st["b"], "t": "req", "concurrent": "second"}))
        else:
            views.append((dict(bats), dict(invs), st))
    return views


def eff_faults(case, st):
    """per-inverter outcome of set_power as the manager must see it: the scripted fault, or a time-out when the
    acknowledge takes longer than api_power_request_timeout"""
    f = {int(i): int(c) for i, c in st.get("faults", [])}
    if D.fr(st.get("latency", 0)) >= D.fr(case.get("timeout", 5)):
        gis = st.get("sets", list(range(len(case["groups"]))))
        for gi in gis:
            for i in case["groups"][gi]["invs"]:
                f.setdefault(i, 4)
    return f


def dist_case(case, view, order=None):
    """the equivalent single-shot case of harness.dist on the latest data: only sets with complete data"""
    bats, invs, st = view
    groups, idx = [], []
    for gi, g in enumerate(case["groups"]):
        if "sets" in st and gi not in st["sets"]:
            continue
        if all(b in bats for b in g["bats"]) and all(i in invs for i in g["invs"]):
            groups.append({"bats": [{**bats[b], "id": b} for b in g["bats"]], "invs": [{**invs[i], "id": i} for i in g["invs"]]})
            idx.append(gi)
    if order is not None:
        pos = {gi: k for k, gi in enumerate(order)}
        both = sorted(zip(idx, groups), key=lambda t: pos.get(t[0], 10 ** 6))
        idx, groups = [a for a, _ in both], [b for _, b in both]
    return {"groups": groups, "power": st["power"], "exp": 1}, idx


def enforced_ok(dc, adjust):
    """independent replica of the documented admission rule on the ENFORCED bounds (labels only)"""
    p = D.fr(dc["power"])
    if abs(p) <= D.ZERO_TOL:
        return True
    elo, ehi = D.enforced_excl(dc)
    if adjust:
        return not (elo < p < ehi)
    il = sum(max(D.agg(g)["il"], sum(D.fr(i["il"]) for i in g["invs"])) for g in dc["groups"])
    iu = sum(min(D.agg(g)["iu"], sum(D.fr(i["iu"]) for i in g["invs"])) for g in dc["groups"])
    return il <= p <= elo or ehi <= p <= iu


def judge(case, obs):
    """C01/C02 clauses on the recorded set_power calls and the Result vs the latest data"""
    out = []
    for k, (view, o) in enumerate(zip(latest_views(case), obs["reqs"])):
        dc, idx = dist_case(case, view)
        if not dc["groups"]:
            continue
        if o["kind"] is not None and o["kind"].startswith("raise:"):
            if D.in_domain(dc):
                out.append(("C01_error", k, f"request {k}: BatteryManager.distribute_power raised {o['kind'][6:]}"))
                out.append(("C02_error", k, f"request {k}: BatteryManager.distribute_power raised {o['kind'][6:]}"))
            continue
        if o["kind"] not in ("Success", "PartialFailure"):
            # whatever was rejected must not have been commanded
            if o["calls"]:
                out.append(("C01_rejected_but_commanded", k, f"request {k}: result {o['kind']} but set_power calls {o['calls']}"))
            continue
        faults = eff_faults(case, view[2])
        failed_p = D.fr(o["failed_power"]) if o["failed_power"] is not None else F(0)
        want = sorted(i["id"] for g in dc["groups"] for i in g["invs"])
        got = [c for c, _ in o["calls"]]
        if got != want:
            out.append(("C01_calls", k, f"request {k}: set_power called for inverters {got}, the request covers {want}"))
            out.append(("C02_calls", k, f"request {k}: set_power called for inverters {got}, the request covers {want}"))
            continue
        # reported-as-set under API faults: succeeded = accepted set-points, failed = rejected set-points
        # accepted = commanded, not rejected, and acknowledged before api_power_request_timeout (also when the
        # acknowledge arrives after the Result was sent)
        acked = {c for c, _ in o["calls"] if faults.get(c, 0) == 0}
        acc = sum(D.fr(v) for c, v in o["calls"] if c in acked)
        rej = sum(D.fr(v) for c, v in o["calls"] if c not in acked)
        req_p = D.fr(view[2]["power"])
        if abs(D.fr(o["succ"]) - acc) > D.TOL:
            out.append(("C01_reported_succeeded", k, f"request {k} ({req_p}, faults {sorted(faults.items())}): succeeded_power {D.fr(o['succ'])} != sum of the accepted set-points {acc} (calls {o['calls']})"))
        if abs(failed_p - rej) > D.TOL:
            out.append(("C01_reported_failed", k, f"request {k} ({req_p}, faults {sorted(faults.items())}): failed_power {failed_p} ({o['kind']}) != sum of the rejected set-points {rej} (calls {o['calls']})"))
        if abs(D.fr(o["succ"]) + failed_p + D.fr(o["excess"]) - req_p) > D.TOL and abs(req_p) > D.ZERO_TOL:
            out.append(("C01_reported_total", k, f"request {k}: succeeded {D.fr(o['succ'])} + failed {failed_p} + excess {D.fr(o['excess'])} != request {req_p}"))
        if (o["kind"] == "Success") != all(c in acked for c, _ in o["calls"]):
            out.append(("C01_reported_kind", k, f"request {k}: result {o['kind']} although the rejected set_power calls are {[c for c, _ in o['calls'] if faults.get(c, 0)]}"))
        sub = {"err": None, "dist": o["calls"], "rem": o["excess"], "distributed": D.js(D.fr(o["succ"]) + failed_p)}
        for cl, gi, text in D.clauses(dc, sub):
            out.append((cl, k, f"request {k} ({'adjust' if view[2]['adjust'] else 'exact'} {D.fr(view[2]['power'])}): {text}"))
        # conservation and reported-is-commanded also hold outside the admission domain whenever the manager says Success
        p = D.fr(dc["power"])
        tot = sum(D.fr(v) for _, v in o["calls"])
        if not D.in_domain(dc) and abs(p) > D.ZERO_TOL:
            if abs(tot + D.fr(o["excess"]) - p) > D.TOL:
                out.append(("C01_sum", k, f"request {k}: set-points {tot} + excess {D.fr(o['excess'])} != request {p}"))
            if abs(D.fr(o["succ"]) + failed_p - tot) > D.TOL:
                out.append(("C01_reported", k, f"request {k}: succeeded_power + failed_power {D.fr(o['succ']) + failed_p} != commanded {tot}"))
    return out


# ----------------------------------------------------------------------------- Coq rendering
HEADER = """From Verif Require Import model.DistMgr.
From Verif Require model.Accounting.
Open Scope Q_scope.
(* one entry per request: battery sets with their latest data in the order the manager visited them, request,
   adjust_power, inverter -> batteries map, per-inverter set_power outcome, expected: 0 = Error, 1 = OutOfBounds,
   2 = Success / 3 = PartialFailure with (set_power calls sorted by id, excess, succeeded power, failed power) *)
Definition mcase := (list group * Q * bool * list (Z * list Z) * (Z -> Accounting.outcome) * (nat * option (list (Z * Q) * Q * Q * Q)))%type.
Definition check1 (c : mcase) : bool :=
  let '(gs, p, adj, m, outf, (kind, exp)) := c in
  match manager_request (fun x => x) gs p adj, kind, exp with
  | MError, 0%nat, _ => true
  | MFailed, 0%nat, _ => true
  | MOutOfBounds, 1%nat, _ => true
  | MDone r, _, Some (d, rem, sp, fp) =>
      list_eqb (fun a b => Z.eqb (fst a) (fst b) && Qeq_bool (snd a) (snd b)) (sort_by_id (res_dist (rr_res r))) d
      && match faults_result p r m outf, kind with
         | Accounting.Success s _ e, 2%nat => Qeq_bool s sp && Qeq_bool e rem && Qeq_bool fp 0
         | Accounting.PartialFailure s _ f _ e, 3%nat => Qeq_bool s sp && Qeq_bool e rem && Qeq_bool f fp
         | _, _ => false
         end
  | _, _, _ => false
  end.
Definition check (c : list mcase) : bool := forallb check1 c.
"""

KIND = {"Error": 0, "OutOfBounds": 1, "Success": 2, "PartialFailure": 3}


def c_outf(faults):
    t = "Accounting.OOk"
    for i, c in sorted(faults):
        t = f"if Z.eqb i ({cZ(i)}) then {FAULT_NAMES[int(c)]} else {t}"
    return f"(fun i : Z => {t})"


def c_map(case):
    return "[" + "; ".join(f"(({cZ(i)})%Z, [" + "; ".join(f"({cZ(b)})%Z" for b in g["bats"]) + "])" for g in case["groups"] for i in g["invs"]) + "]"


def case_term(case, obs):
    items = []
    for view, o in zip(latest_views(case), obs["reqs"]):
        dc, _ = dist_case(case, view, o.get("order"))
        if o["kind"] not in KIND:
            return None          # exceptions / several results: no model twin (the oracle reports them)
        if o["kind"] in ("Success", "PartialFailure"):
            d = "[" + "; ".join(f"(({cZ(c)})%Z, {D.cQ(v)})" for c, v in o["calls"]) + "]"
            fp = o["failed_power"] if o["failed_power"] is not None else 0
            exp = f"({KIND[o['kind']]}%nat, Some ({d}, {D.cQ(o['excess'])}, {D.cQ(o['succ'])}, {D.cQ(fp)}))"
        else:
            exp = f"({KIND[o['kind']]}%nat, None)"
        items.append(f"({D.c_groups(dc)}, {D.cQ(view[2]['power'])}, {'true' if view[2]['adjust'] else 'false'}, "
                     f"{c_map(case)}, {c_outf(sorted(eff_faults(case, view[2]).items()))}, {exp})")
    return "[" + "; ".join(items) + "]"


# ----------------------------------------------------------------------------- generation
def _comp_data(rng, topo_groups):
    """fresh data for every component of the topology (same grids as harness.dist)"""
    gs = D.gen_groups(rng, ngroups=len(topo_groups))
    bats, invs = [], []
    for tg, g in zip(topo_groups, gs):
        # fit the generated group to the topology's sizes
        gb = (g["bats"] * 3)[:len(tg["bats"])]
        gi = (g["invs"] * 3)[:len(tg["invs"])]
        fitted = D.make_consistent({"bats": [dict(b) for b in gb], "invs": [dict(i) for i in gi]})
        for cid, b in zip(tg["bats"], fitted["bats"]):
            bats.append([cid, {k: b[k] for k in D.BAT_F}])
        for cid, i in zip(tg["invs"], fitted["invs"]):
            invs.append([cid, {k: i[k] for k in D.INV_F}])
    return bats, invs


def _requests(rng, dc):
    lo, hi = D.advertised(dc)
    iu = sum(D.group_dir(g, False)[1] for g in dc["groups"])
    il = -sum(D.group_dir(g, True)[1] for g in dc["groups"])
    elo, ehi = D.enforced_excl(dc)
    cands = [hi, iu, (hi + iu) / 2, iu + 50, iu + 200, hi + 1, lo, il, (lo + il) / 2, il - 50, il - 200, lo - 1,
             ehi, elo, F(0), F(7), F(-7)]
    return cands


def gen_case(rng, startup=False):
    n = rng.choice([1, 2, 2, 3]) if not startup else rng.choice([2, 2, 3])
    topo, cid = [], rng.choice([1, 10])
    pool_ids = rng.sample(range(1, 64), 24)     # start-up path: ids whose set-iteration order differs from sorted order
    for _ in range(n):
        k, m = rng.choice([1, 1, 2]), rng.choice([1, 1, 2, 3])
        if startup:
            ids = [pool_ids.pop() for _ in range(k + m)]
            topo.append({"bats": ids[:k], "invs": ids[k:]})
        else:
            topo.append({"bats": list(range(cid, cid + k)), "invs": list(range(cid + k, cid + k + m))})
        cid += k + m
    steps, ts = [], 0
    bats, invs = _comp_data(rng, topo)
    if rng.random() < 0.08:       # a request before any / before complete data
        steps.append({"t": "req", "power": 100, "adjust": True})
        steps.append({"t": "data", "ts": ts, "bats": bats, "invs": invs[:-1]})
        steps.append({"t": "req", "power": -100, "adjust": True})
    steps.append({"t": "data", "ts": ts, "bats": bats, "invs": invs})
    cur_b, cur_i = dict(map(tuple, bats)), dict(map(tuple, invs))
    for _ in range(rng.choice([2, 3, 3, 4])):
        dc = {"groups": [{"bats": [{**cur_b[b], "id": b} for b in g["bats"]], "invs": [{**cur_i[i], "id": i} for i in g["invs"]]}
                         for g in topo], "power": 1, "exp": 1}
        p = rng.choice(_requests(rng, dc))
        req = {"t": "req", "power": D.js(p), "adjust": rng.random() < 0.6}
        if rng.random() < 0.35:       # API faults: per-inverter outcome of set_power
            all_invs = [i for g in topo for i in g["invs"]]
            kind = rng.choice(["range_only", "range_only", "mixed", "one_of_set"])
            if kind == "one_of_set" and any(len(g["invs"]) > 1 for g in topo):
                g = rng.choice([g for g in topo if len(g["invs"]) > 1])
                req["faults"] = [[rng.choice(g["invs"]), rng.choice([1, 2, 4])]]
            else:
                chosen = [i for i in all_invs if rng.random() < 0.5] or [rng.choice(all_invs)]
                req["faults"] = [[i, 1 if kind == "range_only" else rng.choice([1, 2, 4])] for i in chosen]
        if rng.random() < 0.5:
            # time until a set_power call is acknowledged: below and above api_power_request_timeout
            req["latency"] = D.js(rng.choice([F(1, 20), F(1, 20), F(1, 5), F(2, 5), F(1), F(3)]))
        if rng.random() < 0.15:
            req["mutate_to"] = D.js(-p if p != 0 else F(100))    # the caller mutates the Request while the API round trip is in flight
        if len(topo) >= 2 and rng.random() < 0.25:
            # two requests for disjoint battery sets in flight together; the second starts during the first one's wait
            # and is acknowledged first
            k = rng.randrange(1, len(topo))
            sa, sb = list(range(k)), list(range(k, len(topo)))
            sub = lambda gis: {"groups": [dc["groups"][gi] for gi in gis], "power": 1, "exp": 1}
            pa, pb = rng.choice(_requests(rng, sub(sa))), rng.choice(_requests(rng, sub(sb)))
            a = {"power": D.js(pa), "adjust": True, "sets": sa, "latency": D.js(rng.choice([F(1, 5), F(2, 5), F(1)]))}
            b = {"power": D.js(pb), "adjust": rng.random() < 0.7, "sets": sb, "latency": [1, 20]}
            if rng.random() < 0.7:
                a["faults"] = [[rng.choice([i for gi in sa for i in topo[gi]["invs"]]), rng.choice([1, 1, 2])]]
            if rng.random() < 0.3:
                b["faults"] = [[rng.choice([i for gi in sb for i in topo[gi]["invs"]]), rng.choice([1, 2])]]
            req = {"t": "req2", "a": a, "b": b}
        steps.append(req)
        # next update: which side gets a fresh sample
        nb, ni = _comp_data(rng, topo)
        side = rng.choice(["bat", "inv", "inv", "both", "same_ts_inv", "same_ts_bat", "none"])
        if side == "none":
            continue
        if not side.startswith("same_ts"):
            ts += rng.choice([1, 1, 5])
        ub = nb if side in ("bat", "both", "same_ts_bat") else []
        ui = ni if side in ("inv", "both", "same_ts_inv") else []
        if side in ("inv", "same_ts_inv") and rng.random() < 0.6:
            # tighten the inverter bounds only (keeps the group consistent: inclusion bounds shrink towards the exclusion bounds)
            ui = []
            for i, d in cur_i.items():
                d2 = dict(d)
                d2["iu"] = D.js(max(D.fr(d["eu"]), D.fr(d["iu"]) / 2))
                d2["il"] = D.js(min(D.fr(d["el"]), D.fr(d["il"]) / 2))
                ui.append([i, d2])
        if rng.random() < 0.3 and ui:
            ui = ui[:max(1, len(ui) // 2)]
        steps.append({"t": "data", "ts": ts, "bats": ub, "invs": ui})
        cur_b.update(dict(map(tuple, ub)))
        cur_i.update(dict(map(tuple, ui)))
    case = {"groups": topo, "steps": steps, "timeout": D.js(rng.choice([F(1, 4), F(1, 2), F(3, 2), F(2), F(5), F(5)]))}
    if startup:
        # every component needs a stream sample before it is used; requests before the data are fine (Error)
        case["startup"] = True
    return case


def boundary_cases():
    b = {"cap": 10, "soc": 50, "lo": 0, "hi": 100, "il": -1000, "el": 0, "eu": 0, "iu": 1000}
    i = {"il": -500, "el": 0, "eu": 0, "iu": 500}
    topo = [{"bats": [1], "invs": [2]}, {"bats": [3], "invs": [4]}]
    data0 = {"t": "data", "ts": 0, "bats": [[1, b], [3, b]], "invs": [[2, i], [4, i]]}
    out = []
    # beyond the inclusion bounds on either side, both modes
    out.append({"groups": topo, "steps": [data0] + [{"t": "req", "power": p, "adjust": a}
                                                   for p in (1200, -1200, 1000, -1000, 400, -400) for a in (True, False)]})
    # newer inverter bounds without a newer battery sample
    tight = {"il": -100, "el": 0, "eu": 0, "iu": 100}
    out.append({"groups": topo, "steps": [data0, {"t": "req", "power": 800, "adjust": True},
                                          {"t": "data", "ts": 1, "bats": [], "invs": [[2, tight]]},
                                          {"t": "req", "power": 800, "adjust": True},
                                          {"t": "data", "ts": 1, "bats": [], "invs": [[4, tight]]},      # equal timestamp, new values
                                          {"t": "req", "power": -800, "adjust": True},
                                          {"t": "data", "ts": 2, "bats": [[1, {**b, "soc": 100}]], "invs": []},
                                          {"t": "req", "power": 150, "adjust": True}]})
    # through the real start-up wiring: inverter ids 17 / 24 (set-iteration order 24, 17), battery 18 full
    full = {**b, "soc": 100}
    wide = {"il": -800, "el": 0, "eu": 0, "iu": 800}
    for ids in (([7], [17], [18], [24]), ([9], [25], [17], [16]), ([33], [41, 9], [2], [17])):
        tp = [{"bats": ids[0], "invs": ids[1]}, {"bats": ids[2], "invs": ids[3]}]
        out.append({"startup": True, "groups": tp, "steps": [
            {"t": "data", "ts": 0, "bats": [[ids[0][0], b], [ids[2][0], full]],
             "invs": [[x, i] for x in ids[1]] + [[x, wide] for x in ids[3]]},
            {"t": "req", "power": 800, "adjust": True}, {"t": "req", "power": -800, "adjust": True},
            {"t": "req", "power": 300, "adjust": False}]})
    # API faults: a pure out-of-range rejection, one inverter of a two-inverter set failing, a timeout
    topo2 = [{"bats": [7], "invs": [8]}, {"bats": [17], "invs": [18, 19]}]
    d2 = {"t": "data", "ts": 0, "bats": [[7, b], [17, b]], "invs": [[8, i], [18, i], [19, i]]}
    out.append({"groups": topo2, "steps": [d2,
                                           {"t": "req", "power": 1000, "adjust": True, "faults": [[8, 1]]},
                                           {"t": "req", "power": 1400, "adjust": True, "faults": [[18, 2]]},
                                           {"t": "req", "power": -1400, "adjust": True, "faults": [[19, 1]]},
                                           {"t": "req", "power": 600, "adjust": False, "faults": [[8, 4], [18, 1]]},
                                           {"t": "req", "power": -600, "adjust": True, "faults": [[8, 1], [18, 1], [19, 1]]},
                                           # one early failure while the other acknowledges are still in flight
                                           {"t": "req", "power": 1200, "adjust": True, "faults": [[8, 2]], "latency": [1, 20]},
                                           {"t": "req", "power": -900, "adjust": True, "faults": [[19, 1]], "latency": [1, 20]},
                                           # the caller re-uses (mutates) the Request object during the round trip
                                           {"t": "req", "power": 900, "adjust": True, "latency": [1, 20], "mutate_to": -300},
                                           {"t": "req", "power": 700, "adjust": True, "faults": [[18, 1]], "mutate_to": 100}]})
    # api_power_request_timeout that is not a whole number of seconds, acknowledges just below / above it
    for to, lats in ((F(1, 2), (F(1, 50), F(2, 5), F(1))), (F(1, 4), (F(1, 50), F(1, 5), F(2, 5))), (F(3, 2), (F(1), F(3)))):
        out.append({"groups": topo2, "timeout": D.js(to), "steps": [d2] + [
            {"t": "req", "power": pw, "adjust": True, "latency": D.js(l)} for l in lats for pw in (1500, -700)]})
    # two requests for disjoint battery sets in flight together; a set_power failure in the first, which finishes last
    for flt in ([[8, 1]], [[8, 2]], []):
        out.append({"groups": topo2, "steps": [d2, {"t": "req2",
                    "a": {"power": 500, "adjust": True, "sets": [0], "latency": [2, 5], "faults": flt},
                    "b": {"power": 900, "adjust": True, "sets": [1], "latency": [1, 20]}},
                   {"t": "req2",
                    "a": {"power": -900, "adjust": True, "sets": [1], "latency": [1, 5], "faults": [[19, 1]]},
                    "b": {"power": -300, "adjust": False, "sets": [0], "latency": [1, 50]}}]})
    return out


def shrink_case(case):
    for k, st in enumerate(case["steps"]):
        if st["t"] == "req" and st.get("faults"):
            for j in range(len(st["faults"])):
                st2 = {**st, "faults": st["faults"][:j] + st["faults"][j + 1:]}
                yield {**case, "steps": case["steps"][:k] + [st2] + case["steps"][k + 1:]}
    steps = case["steps"]
    for k in range(len(steps) - 1, -1, -1):
        if len(steps) > 1:
            yield {**case, "steps": steps[:k] + steps[k + 1:]}
    if len(case["groups"]) > 1 and not any(st["t"] == "req2" for st in steps):
        for gi, g in enumerate(case["groups"]):
            drop = set(g["bats"]) | set(g["invs"])
            st2 = []
            for st in steps:
                if st["t"] == "data":
                    st2.append({**st, "bats": [x for x in st["bats"] if x[0] not in drop], "invs": [x for x in st["invs"] if x[0] not in drop]})
                else:
                    st2.append(st)
            yield {**case, "groups": case["groups"][:gi] + case["groups"][gi + 1:], "steps": st2}


class ManagerStream(Stream):
    name = "manager"
    coq_header = HEADER
    n_quick = 180
    n_thorough = 6000
    CLAUSES: tuple = ()
    FINDING_OF = staticmethod(lambda dc, clause: None)

    def gen(self, rng, tier):
        yield from boundary_cases()
        for k in range(self.n_quick if tier == "quick" else self.n_thorough):
            yield gen_case(rng, startup=(k % 3 == 2))

    def run_impl(self, case):
        return run_sequence(case)

    def to_coq(self, case, obs):
        return case_term(case, obs)

    def show_term(self, case, obs):
        views = latest_views(case)
        parts = []
        for view, o in zip(views, obs["reqs"]):
            dc, _ = dist_case(case, view, o.get("order"))
            parts.append(f"match manager_request (fun x => x) {D.c_groups(dc)} {D.cQ(view[2]['power'])} {'true' if view[2]['adjust'] else 'false'} with "
                         f"MDone r => (2%nat, map (fun a => (fst a, Qred (snd a))) (sort_by_id (res_dist (rr_res r))), Qred (res_rem (rr_res r))) "
                         f"| MOutOfBounds => (1%nat, [], 0) | _ => (0%nat, [], 0) end")
        return "[" + "; ".join(parts) + "]"

    def shrink(self, case):
        return shrink_case(case)

    def oracle(self, case, obs):
        out = []
        views = latest_views(case)
        for cl, k, text in judge(case, obs):
            if cl.startswith(self.CLAUSES):
                dc, _ = dist_case(case, views[k])
                fid = None
                if cl == "F4_exponent0_full_battery_share":
                    fid = "C02-exponent0-full-battery"
                out.append({"what": f"{cl}: {text}", "finding": fid})
        return out

    def key(self, case, obs):
        if not any(o["kind"] == "Success" and any(D.fr(v) != 0 for _, v in o["calls"]) for o in obs["reqs"]):
            return None
        return json.dumps(case, sort_keys=True)

    def labels(self, case, obs):
        out = [f"sets={len(case['groups'])}", f"requests={len(obs['reqs'])}", f"api_timeout={float(D.fr(case.get('timeout', 5)))}s"]
        if case.get("startup"):
            out.append("construction:real_init_and_create_channels")
            invs = [i for g in case["groups"] for i in g["invs"]]
            if list(set(invs)) != sorted(invs):
                out.append("construction:set_order_differs_from_sorted_order")
        else:
            out.append("construction:injected_maps")
        prev_b, prev_i = {}, {}
        for st in case["steps"]:
            if st["t"] != "data":
                continue
            if st["bats"] and not st["invs"]:
                out.append("update:battery_only")
            elif st["invs"] and not st["bats"]:
                out.append("update:inverter_only")
            elif st["invs"] and st["bats"]:
                out.append("update:both")
        tss = [st["ts"] for st in case["steps"] if st["t"] == "data"]
        if len(tss) != len(set(tss)):
            out.append("update:equal_timestamp")
        for view, o in zip(latest_views(case), obs["reqs"]):
            dc, _ = dist_case(case, view)
            st = view[2]
            p = D.fr(st["power"])
            out.append(f"result:{o['kind']}")
            out.append("mode:adjust" if st["adjust"] else "mode:exact")
            if "concurrent" in st:
                out.append("concurrent:two_requests_disjoint_sets")
                if st["concurrent"] == "first" and st.get("faults"):
                    out.append("concurrent:failure_in_the_request_that_finishes_last")
            if st.get("latency") and D.fr(st["latency"]) >= D.fr(case.get("timeout", 5)):
                out.append("api:acknowledge_after_timeout")
            if st.get("latency"):
                out.append("api:acknowledge_latency" + ("+early_failure" if any(c in (1, 2) for _, c in st.get("faults", [])) else ""))
            if "mutate_to" in st:
                out.append("caller:request_object_mutated_in_flight")
            if st.get("faults"):
                codes = sorted({c for _, c in st["faults"]})
                out.append("faults:" + "+".join({1: "out_of_range", 2: "client_error", 4: "timeout"}[c] for c in codes))
                fs = {i for i, _ in st["faults"]}
                if any(len(g["invs"]) > 1 and 0 < len(fs & set(g["invs"])) < len(g["invs"]) for g in case["groups"]):
                    out.append("faults:part_of_a_multi_inverter_set")
            if dc["groups"]:
                iu = sum(min(D.agg(g)["iu"], sum(D.fr(i["iu"]) for i in g["invs"])) for g in dc["groups"])
                il = sum(max(D.agg(g)["il"], sum(D.fr(i["il"]) for i in g["invs"])) for g in dc["groups"])
                if p > iu:
                    out.append("request:beyond_inclusion_upper")
                if p < il:
                    out.append("request:beyond_inclusion_lower")
                if D.in_domain(dc):
                    out.append("request:in_domain")
                if D.in_enforced_advertised_band(dc):
                    out.append("request_between_enforced_and_advertised_excl")
                if o["kind"] == "OutOfBounds" and enforced_ok(dc, st["adjust"]):
                    out.append("note:rejected_although_enforced_bounds_admit")
            else:
                out.append("request:no_data")
        return sorted(set(out)) if False else out
