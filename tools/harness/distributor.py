"""C14: request coalescing of the real PowerDistributingActor.

Implementation side: the real `PowerDistributingActor` (its `_run`, `_handle_task_completion`,
`_process_request`) on an `async_solipsism` virtual-time loop.  The component-manager class is
substituted by a probe whose `distribute_power` completes on command (instantly, after a
virtual sleep, when a gate is released; returning or raising); requests reach the actor
through a real `Broadcast` channel whose receiver is wrapped so that the moment the actor
consumes a request is recorded.

Recorded boundary events (chronological log):
  A g r      the actor's `async for` consumed request r of group g
  S g r      `distribute_power(r)` was called by `_process_request` (task creation)
  E g r      the distribution coroutine started running
  X g r ok   it finished (ok=False: it raised)
  F g ok     a done-callback registered from inside the distribution task ran; being added
             after the actor's own callback it runs immediately after
             `_handle_task_completion`, so an `S` directly before `F` was made by it.

Model side: coq/model/Distributor.v, `dreplay`.
"""
from __future__ import annotations

import asyncio
import itertools
import json
from datetime import timedelta

from lib.core import Stream, cZ, cbool, clist

# group label -> component ids (2 and 3 overlap with 1 on purpose: different frozensets are
# different groups for the distributor)
# (ids 1, 9, 17 collide in a small hash table, so the iteration order of a set of them depends on the insertion order)
# group 4 is the EMPTY component set: for the distributor just another group
GROUPS = {1: frozenset({1, 9}), 2: frozenset({9, 17}), 3: frozenset({4}), 4: frozenset()}
EMPTY = 4
GROUP_OF = {v: k for k, v in GROUPS.items()}
MODES = ["instant_ok", "instant_exc", "gate_ok", "gate_exc", "sleep_ok", "sleep_exc"]


class ProbeError(Exception):
    pass


def run_case(case):
    """Drive the real actor through the schedule of [case]; return the observation."""
    import async_solipsism
    from frequenz.channels import Broadcast, Receiver
    from frequenz.client.microgrid import ComponentCategory
    from frequenz.quantities import Power
    from frequenz.sdk.microgrid._power_distributing import power_distributing as pd
    from frequenz.sdk.microgrid._power_distributing.request import Request

    logs: list = [[]]                    # one log per PowerDistributingActor instance in the process
    log = logs[0]
    building = [0]                       # index of the instance under construction (read by the probe manager)
    rid_of: dict[int, int] = {}          # id(Request object) -> sequence number: requests are told apart by IDENTITY
    sent: list = []                      # keeps the objects alive (ids stay unique)
    grp_of: dict[int, int] = {}          # request sequence number -> group label AT SEND TIME
    shared: dict[int, set] = {}          # the caller's ONE mutable id set per group (passed uncopied, updated in place)
    shared_rids: dict[int, list] = {}    # requests that carry the shared set of a group
    modes: dict[int, list] = {}
    gates: dict[int, asyncio.Future] = {}
    loop = async_solipsism.EventLoop()

    def now_us():
        return int(round(loop.time() * 1_000_000))

    class ProbeManager:
        def __init__(self, status_sender, results_sender, timeout):
            self.k = building[0]

        async def start(self):
            d = case.get("mgr_start_ms", 0)
            if d:                                   # a component manager whose start() takes time
                await asyncio.sleep(d / 1000.0)

        async def stop(self):
            pass

        def distribute_power(self, request):
            r = rid_of[id(request)]
            g = grp_of[r]
            logs[self.k].append(["S", g, r, now_us()])
            return self._go(g, r)

        async def _go(self, g, r):
            log = logs[self.k]
            gkey = (self.k, g)
            log.append(["E", g, r, now_us()])
            ok = True
            state = {"ok": True}

            def fin(task):
                log.append(["F", g, state["ok"], now_us()])
            asyncio.current_task().add_done_callback(fin)
            mode, arg = modes[r]
            kind, res = mode.split("_")
            if kind == "gate":
                fut = loop.create_future()
                gates[gkey] = fut
                await fut
                gates.pop(gkey, None)
            elif kind == "sleep":
                await asyncio.sleep(arg / 1000.0)
            ok = res == "ok"
            state["ok"] = ok
            log.append(["X", g, r, ok, now_us()])
            if not ok:
                raise ProbeError(f"request {r}")

    class LoggingReceiver(Receiver):
        def __init__(self, inner, k=0):
            self._inner = inner
            self._k = k

        async def ready(self):
            return await self._inner.ready()

        def consume(self):
            request = self._inner.consume()
            log = logs[self._k]
            if request.component_ids is None:      # malformed: frozenset(None) raises in _run -> the Actor restarts _run
                log.append(["R", "bad", now_us()])
            else:
                log.append(["A", grp_of[rid_of[id(request)]], rid_of[id(request)], now_us()])
            return request

        def close(self):
            self._inner.close()

    async def main():
        saved = pd.BatteryManager
        pd.BatteryManager = ProbeManager
        try:
            if case.get("via") == "wrapper":
                # the actor, its request channel and its receiver are built by the REAL PowerWrapper
                # (microgrid/_power_wrapper.py: _start_power_distributing_actor); only the connection manager is a stub
                from types import SimpleNamespace
                from frequenz.sdk._internal._channels import ChannelRegistry
                from frequenz.sdk.microgrid import _power_wrapper as pw, connection_manager as cm
                saved_cm = getattr(cm, "_CONNECTION_MANAGER", None)
                cm._CONNECTION_MANAGER = SimpleNamespace(
                    component_graph=SimpleNamespace(components=lambda **kw: {1, 2, 3, 4}), api_client=None)
                try:
                    wrapper = pw.PowerWrapper(ChannelRegistry(name="verif"), api_power_request_timeout=timedelta(seconds=5),
                                              component_category=ComponentCategory.BATTERY)
                    wrapper._start_power_distributing_actor()
                finally:
                    cm._CONNECTION_MANAGER = saved_cm
                actor = wrapper._power_distributing_actor
                # observe the consumption instant: wrap the receiver the wrapper created (the loop has not run yet)
                actor._requests_receiver = LoggingReceiver(actor._requests_receiver)
                req = wrapper._power_distribution_requests_channel
            else:
                req = Broadcast(name="requests")
                res = Broadcast(name="results")
                st = Broadcast(name="status")
                actor = pd.PowerDistributingActor(
                    LoggingReceiver(req.new_receiver(limit=200)), res.new_sender(), st.new_sender(),
                    api_power_request_timeout=timedelta(seconds=5), component_category=ComponentCategory.BATTERY)
                actor.start()
        finally:
            pd.BatteryManager = saved
        for _ in range(case.get("warm", 3)):
            await asyncio.sleep(0)
        sender = req.new_sender()
        insts = [{"actor": actor, "sender": sender, "live": True}]
        cur = 0

        def build():
            """another PowerDistributingActor in the same process, with its own channels and its own probe manager"""
            k = len(insts)
            logs.append([])
            building[0] = k
            saved_ = pd.BatteryManager
            pd.BatteryManager = ProbeManager
            try:
                rq = Broadcast(name=f"requests{k}")
                a_ = pd.PowerDistributingActor(
                    LoggingReceiver(rq.new_receiver(limit=200), k), Broadcast(name=f"results{k}").new_sender(),
                    Broadcast(name=f"status{k}").new_sender(),
                    api_power_request_timeout=timedelta(seconds=5), component_category=ComponentCategory.BATTERY)
            finally:
                pd.BatteryManager = saved_
            a_.start()
            insts.append({"actor": a_, "sender": rq.new_sender(), "live": True})
            return k
        rid = 0
        nbad = [0]
        sent_cnt = {}                 # instance -> messages sent on its request channel
        for step in case["steps"]:
            op = step[0]
            actor, sender, log = insts[cur]["actor"], insts[cur]["sender"], logs[cur]
            if op == "spawn":              # a second live instance, side by side
                build()
            elif op == "use":              # later steps address instance step[1] (if it exists and is live)
                if step[1] < len(insts) and insts[step[1]]["live"]:
                    cur = step[1]
            elif op == "replace":          # the current instance is stopped and replaced by a fresh one
                await actor.stop()
                insts[cur]["live"] = False
                cur = build()
            elif op == "req":
                rid += 1
                modes[rid] = [step[2], step[3]]
                val = step[4] if len(step) > 4 else rid        # the VALUE may repeat; the identity never does
                # every request carries its OWN component-id container: a set / frozenset built by inserting the ids in
                # ascending or descending order (equal sets, possibly different iteration order)
                ids_sorted = sorted(GROUPS[step[1]], reverse=(rid % 2 == 0))
                ids_obj = set()
                for i_ in ids_sorted:
                    ids_obj.add(i_)
                if rid % 3 == 0:
                    ids_obj = frozenset(ids_obj)
                if len(step) > 5 and step[5] == "shared":
                    # the caller passes its own long-lived mutable set, uncopied (only while it denotes the group)
                    sh = shared.setdefault(step[1], set(GROUPS[step[1]]))
                    if sh == GROUPS[step[1]]:
                        ids_obj = sh
                        shared_rids.setdefault(step[1], []).append(rid)
                if val is None:
                    val = rid
                req_obj = Request(Power.from_watts(float(val)), ids_obj)
                rid_of[id(req_obj)] = rid
                grp_of[rid] = step[1]
                sent.append(req_obj)
                sent_cnt[cur] = sent_cnt.get(cur, 0) + 1
                await sender.send(req_obj)
            elif op == "bad":
                nbad[0] += 1
                sent_cnt[cur] = sent_cnt.get(cur, 0) + 1
                req_obj = Request(Power.from_watts(0.0), None)  # type: ignore[arg-type]
                sent.append(req_obj)
                await sender.send(req_obj)
            elif op == "stopstart":
                await actor.stop()
                if step[1]:
                    await asyncio.sleep(step[1] / 1000.0)
                log.append(["R", "stopstart", now_us()])
                actor.start()
            elif op == "mut":              # the caller updates its shared id set of group step[1] IN PLACE
                sh = shared.setdefault(step[1], set(GROUPS[step[1]]))
                for _ in range(3):
                    await asyncio.sleep(0)
                arrived_ = {e[2] for l in logs for e in l if e[0] == "A"}
                if any(r_ not in arrived_ for r_ in shared_rids.get(step[1], [])):
                    pass       # a request carrying the set is still unread: what the distributor would receive is a different
                               # request -- outside the property (the set is updated only while its requests are in flight/pending)
                elif step[2] == 0:
                    sh.discard(min(sh) if sh else 0)
                elif step[2] == 1:
                    sh.add(99)
                else:                      # ... into the ids of another group
                    other = GROUPS[step[1] % 3 + 1]
                    sh.clear()
                    sh.update(other)
            elif op == "unmut":            # ... and back
                sh = shared.setdefault(step[1], set(GROUPS[step[1]]))
                sh.clear()
                sh.update(GROUPS[step[1]])
            elif op == "rel":              # releases the gate of group step[1] in every instance
                for (k_, g_), fut in list(gates.items()):
                    if g_ == step[1] and not fut.done():
                        fut.set_result(None)
            elif op == "yield":
                for _ in range(step[1]):
                    await asyncio.sleep(0)
            elif op == "sleep":
                await asyncio.sleep(step[1] / 1000.0)
        # snapshot before draining, then drain to quiescence
        mid = [snapshot(i["actor"]) for i in insts]
        n_mid = [len(l) for l in logs]
        slow_ms = sum(st[3] for st in case["steps"] if st[0] == "req" and st[2].startswith("sleep") and st[3] > 200)
        for _ in range(200 + 50 * nbad[0] + slow_ms // 50):   # every malformed request costs one RESTART_DELAY (2 s) of virtual time; slow distributions run to their end
            for _ in range(6):
                await asyncio.sleep(0)
            consumed = [sum(1 for e in l if e[0] == "A" or (e[0] == "R" and e[1] == "bad")) for l in logs]
            # (what was sent to an instance that was stopped before it consumed it stays unread: not waited for)
            if all(not i["actor"]._processing_tasks and not i["actor"]._pending_requests for i in insts) \
                    and all(consumed[k_] == sent_cnt.get(k_, 0) for k_, i in enumerate(insts) if i["live"]):
                break
            for fut in list(gates.values()):
                if not fut.done():
                    fut.set_result(None)
            await asyncio.sleep(0.05)
        for _ in range(6):
            await asyncio.sleep(0)
        final = [snapshot(i["actor"]) for i in insts]
        alive = [i["actor"].is_running for i in insts]
        live = [i["live"] for i in insts]
        for i in insts:
            await i["actor"].stop()
        return mid, n_mid, final, alive, live

    def snapshot(actor):
        out = []
        for g, ids in sorted(GROUPS.items()):      # whatever the key type, a key denotes the SET of its ids
            infl = [k for k in actor._processing_tasks if frozenset(k) == ids]
            pend = [v for k, v in actor._pending_requests.items() if frozenset(k) == ids]
            # more than one entry for one group is itself a disagreement with the model: report the count
            out.append([g, len(infl) == 1 if len(infl) <= 1 else True, None if not pend else rid_of[id(pend[-1])]]
                       + ([len(infl), len(pend)] if len(infl) > 1 or len(pend) > 1 else []))
        return out

    asyncio.set_event_loop(loop)
    try:
        mid, n_mid, final, alive, live = loop.run_until_complete(main())
    finally:
        asyncio.set_event_loop(None)
        loop.close()
    out = {"log": logs[0], "n_mid": n_mid[0], "mid": mid[0], "final": final[0], "alive": alive[0] or not live[0], "live": live[0]}
    if len(logs) > 1:       # further instances of the same process, each with its own observation
        out["more"] = [{"log": logs[k], "n_mid": n_mid[k], "mid": mid[k], "final": final[k],
                        "alive": alive[k] or not live[k], "live": live[k]} for k in range(1, len(logs))]
    return out


def instances(obs):
    """observations per actor instance"""
    return [obs] + obs.get("more", [])


def issued_by_instance(case, n):
    """requests issued per instance and group: replays the instance bookkeeping of the schedule"""
    out = [dict() for _ in range(n)]
    live = [True] + [False] * (n - 1)
    made, cur, rid = 1, 0, 0
    for st in case["steps"]:
        if st[0] == "spawn":
            if made < n:
                live[made] = True
            made += 1
        elif st[0] == "use":
            if st[1] < made and st[1] < n and live[st[1]]:
                cur = st[1]
        elif st[0] == "replace":
            live[cur] = False
            cur = made
            if made < n:
                live[made] = True
            made += 1
        elif st[0] == "req":
            rid += 1
            if cur < n:
                out[cur].setdefault(st[1], []).append(rid)
    return out


# ----------------------------------------------------------------------------- observation -> model steps
def observed_steps(log):
    """[(event, [starts])] : A and F are events; an S directly before an F of the same group was
    made by the completion callback, any other S belongs to the event before it."""
    steps = []
    carry = []
    for i, e in enumerate(log):
        if e[0] == "S":
            nxt = log[i + 1] if i + 1 < len(log) else None
            if nxt is not None and nxt[0] == "F" and nxt[1] == e[1]:
                carry.append(e)
            elif steps and steps[-1][0][0] == "A" and log[i - 1][0] in "AS":
                steps[-1][1].append([e[1], e[2]])
            else:
                steps.append([["?"], [[e[1], e[2]]]])   # a start out of nowhere: no model event allows it
        elif e[0] == "A":
            steps.append([["A", e[1], e[2]], []])
        elif e[0] == "R":
            steps.append([["R"], []])
        elif e[0] == "F":
            steps.append([["F", e[1], e[2]], [[s[1], s[2]] for s in carry]])
            carry = []
    return steps


def c_steps(steps):
    out = []
    for ev, starts in steps:
        if ev[0] == "A":
            e = f"Arrive {cZ(ev[1])} {cZ(ev[2])}"
        elif ev[0] == "F":
            e = f"Finish {cZ(ev[1])} {cbool(ev[2])}"
        elif ev[0] == "R":
            e = "Restart"
        else:
            e = "Finish 0 true"  # group 0 never has a task in flight: rejected by `allowed`
        out.append(f"({e}, {clist(starts, lambda s: f'Start {cZ(s[0])} {cZ(s[1])}')})")
    return "[" + "; ".join(out) + "]"


def c_snapshot(snap):
    snap = [x if len(x) == 3 else [0, True, None] for x in snap]     # several entries for one group: no model state matches
    return clist(snap, lambda x: f"({cZ(x[0])}, {cbool(x[1])}, {'None' if x[2] is None else f'(Some {cZ(x[2])})'})")


HEADER = """From Verif Require Import model.Distributor.
Definition snap_ok (st : dstate) (s : list (Z * bool * option Z)) : bool :=
  forallb (fun x => let '(g, infl, pend) := x in
             Bool.eqb (match inflight st g with Some _ => true | None => false end) infl
             && optZ_eqb (pending st g) pend) s.
(* case: observed steps up to the end of the schedule, the actor's dictionaries at that point,
   observed steps of the drain phase, the actor's dictionaries at the end *)
Definition mkc (o1 : list (devent * list dout)) (s1 : list (Z * bool * option Z))
               (o2 : list (devent * list dout)) (s2 : list (Z * bool * option Z)) := (o1, s1, o2, s2).
(* one tuple per PowerDistributingActor instance of the process: every instance is its own machine *)
Definition check1 (c : list (devent * list dout) * list (Z * bool * option Z)
                      * list (devent * list dout) * list (Z * bool * option Z)) : bool :=
  let '(o1, s1, o2, s2) := c in
  match dreplay d_init o1 with
  | None => false
  | Some st1 =>
      snap_ok st1 s1 &&
      match dreplay st1 o2 with
      | None => false
      | Some st2 => snap_ok st2 s2
      end
  end.
Definition check (cs : list (list (devent * list dout) * list (Z * bool * option Z)
                             * list (devent * list dout) * list (Z * bool * option Z))) : bool := forallb check1 cs.
"""


# ----------------------------------------------------------------------------- generation
def gen_case(rng, ngroups=None, nreq=None):
    k = ngroups or rng.randint(1, 3)
    n = nreq or rng.choice([1, 2, 3, 4, 5, 6, 8, 10, 15, 20, 30])
    style = rng.choice(["gate", "mixed", "mixed", "sleep", "burst"])
    # request VALUES: all distinct, or drawn from a small set so that equal requests (A,A / A,B,A / A,B,B) occur
    values = rng.choice([None, None, [5], [5, 6], [5, 6], [5, 6, 7]])
    restarts = rng.random() < 0.3
    sharing = rng.random() < 0.3      # the caller keeps one mutable id set per group and updates it in place
    # distributions in flight for much longer than api_power_request_timeout (5 s here): 16 s, 20 s, 61 s
    slow = rng.random() < 0.2
    steps = []
    sent = 0
    while sent < n:
        x = rng.random()
        if x < (0.75 if style == "burst" else 0.5):
            g = rng.randint(1, k) if rng.random() > 0.07 else EMPTY
            if style == "gate":
                mode = rng.choice(["gate_ok", "gate_ok", "gate_exc"])
            elif style == "sleep":
                mode = rng.choice(["sleep_ok", "sleep_exc", "instant_ok"])
            else:
                mode = rng.choice(MODES)
            dur = rng.choice([1, 10, 10, 50, 200])
            if slow and rng.random() < 0.3:
                dur = rng.choice([15001, 16000, 20000, 61000])
            st_ = ["req", g, mode, dur] + ([rng.choice(values)] if values else [])
            if sharing and rng.random() < 0.7:
                st_ = st_ + [None] * (5 - len(st_)) + ["shared"]
            steps.append(st_)
            sent += 1
        elif sharing and x < 0.6:
            steps.append(rng.choice([["mut", rng.randint(1, k), rng.randrange(3)], ["unmut", rng.randint(1, k)]]))
        elif restarts and x < 0.58:
            # the receive loop restarts (malformed request -> Actor restart after RESTART_DELAY; or stop() + start())
            if rng.random() < 0.5:
                steps.append(["bad"])
                if rng.random() < 0.5:
                    steps.append(["sleep", rng.choice([1999, 2000, 2001, 2500])])
            else:
                steps.append(["stopstart", rng.choice([0, 0, 10, 100])])
        elif x < 0.72:
            steps.append(["rel", rng.randint(1, k)])
        elif x < 0.92:
            steps.append(["yield", rng.choice([1, 1, 2, 3, 5])])
        elif slow and x > 0.97:
            steps.append(["sleep", rng.choice([15001, 16000, 61000])])     # gates stay closed meanwhile
        else:
            steps.append(["sleep", rng.choice([1, 10, 49, 50, 51, 200])])
    return {"steps": steps}


def exhaustive_cases(maxlen):
    """Every word up to [maxlen] over a small schedule alphabet (two groups)."""
    alphabet = [["req", 1, "gate_ok", 0], ["req", 1, "gate_exc", 0], ["req", 1, "instant_ok", 0],
                ["req", 2, "gate_ok", 0], ["rel", 1], ["rel", 2], ["yield", 2], ["stopstart", 0], ["bad"]]
    pattern = [5, 6, 5, 5, 6, 6, 5, 6]       # request values: A,B,A,A,B,B,... (equal requests, distinct identities)
    for n in range(1, maxlen + 1):
        for w in itertools.product(alphabet, repeat=n):
            if w[0][0] != "req" or not any(s[0] == "req" for s in w):
                continue
            # `yield` only matters after something was sent or released
            if any(w[i][0] == "yield" and w[i + 1][0] == "yield" for i in range(len(w) - 1)):
                continue
            if sum(1 for s in w if s[0] in ("bad", "stopstart")) > 1 or w[-1][0] in ("bad", "stopstart"):
                continue
            steps, k = [], 0
            for s_ in w:
                if s_[0] == "req":
                    steps.append(list(s_) + [pattern[k % len(pattern)]])
                    k += 1
                else:
                    steps.append(list(s_))
            yield {"steps": steps}


def boundary_cases():
    R = lambda g, m, a=10: ["req", g, m, a]
    Y = lambda n=3: ["yield", n]
    return [
        {"steps": [R(1, "gate_ok"), Y(), R(1, "gate_ok"), R(1, "gate_ok"), Y(), ["rel", 1], Y()]},
        {"steps": [R(1, "gate_exc"), Y(), R(1, "gate_ok"), Y(), ["rel", 1], Y(), ["rel", 1], Y()]},
        {"steps": [R(1, "instant_exc"), R(1, "instant_ok"), R(1, "instant_exc"), R(1, "instant_ok")]},
        {"steps": [R(1, "gate_ok"), Y(), R(2, "gate_ok"), R(3, "instant_ok"), R(2, "sleep_exc", 50), Y(), ["rel", 2], ["sleep", 60]]},
        # a distribution in flight for longer than three API time-outs (5 s each), a request waiting behind it
        {"steps": [R(1, "gate_ok"), Y(), R(1, "instant_ok"), ["sleep", 16000], ["rel", 1], Y(), R(1, "instant_ok"), Y()]},
        {"steps": [R(1, "sleep_ok", 20000), R(1, "instant_ok"), R(2, "sleep_exc", 61000), R(2, "gate_ok"), ["sleep", 21000], R(1, "instant_ok")]},
        # a request arriving between the end of the task and its completion callback
        {"steps": [R(1, "gate_ok"), Y(), ["rel", 1], R(1, "gate_ok"), Y(1), R(1, "instant_ok")]},
        {"steps": [R(1, "sleep_ok", 10), R(1, "sleep_exc", 10), ["sleep", 10], R(1, "sleep_ok", 10), ["sleep", 10], R(2, "instant_ok")]},
        # equal request values, distinct identities: A,A / A,B,A / A,B,B
        {"steps": [R(1, "gate_ok") + [5], Y(), R(1, "gate_ok") + [5], Y(), ["rel", 1], Y()]},
        {"steps": [R(1, "gate_ok") + [5], Y(), R(1, "gate_ok") + [6], R(1, "gate_ok") + [5], Y(), ["rel", 1], Y()]},
        {"steps": [R(1, "gate_ok") + [5], Y(), R(1, "gate_ok") + [6], R(1, "gate_ok") + [6], Y(), ["rel", 1], Y()]},
        # a request for the EMPTY component set, followed at once by requests of other groups
        {"steps": [R(EMPTY, "gate_ok"), R(1, "gate_ok"), R(2, "instant_ok"), Y(), R(EMPTY, "instant_ok"), ["rel", EMPTY], Y(), ["rel", 1], Y()]},
        {"steps": [R(1, "gate_ok"), Y(), R(EMPTY, "instant_exc"), R(EMPTY, "gate_ok"), R(1, "gate_ok"), R(3, "sleep_ok", 50), ["sleep", 60], ["rel", 1], Y()]},
        # the caller's own mutable id set, passed uncopied, is updated in place while its request is in flight / pending
        {"steps": [R(1, "gate_ok") + [None, "shared"], Y(), ["mut", 1, 0], ["rel", 1], Y(), ["unmut", 1], R(1, "gate_ok") + [None, "shared"], Y(), ["rel", 1], Y()]},
        {"steps": [R(1, "gate_ok") + [None, "shared"], Y(), R(1, "gate_ok") + [None, "shared"], ["mut", 1, 2], Y(), ["rel", 1], Y(), R(2, "gate_ok"), Y(), ["rel", 1], ["rel", 2], Y()]},
        {"steps": [R(2, "sleep_exc", 50) + [None, "shared"], ["mut", 2, 1], ["sleep", 60], R(2, "instant_ok"), Y()]},
        # the receive loop restarts while a distribution is in flight and a request is pending
        {"steps": [R(1, "gate_ok"), Y(), R(1, "gate_ok"), Y(), ["bad"], Y(), R(1, "gate_ok"), ["sleep", 2100], ["rel", 1], Y(), R(1, "instant_ok")]},
        {"steps": [R(1, "gate_ok"), Y(), R(1, "gate_ok"), Y(), ["stopstart", 10], Y(), R(1, "gate_exc"), Y(), ["rel", 1], Y()]},
        {"steps": [R(1, "sleep_ok", 50), R(2, "gate_ok"), Y(), ["stopstart", 100], R(1, "instant_ok"), R(2, "gate_ok"), Y()]},
        {"steps": [R(1, "gate_ok"), Y(), ["bad"], ["rel", 1], R(1, "gate_ok"), R(1, "gate_ok"), ["sleep", 1999], R(1, "instant_ok"), ["sleep", 2]]},
    ]


def shrink_case(case):
    st = case["steps"]
    for i in range(len(st)):
        yield {"steps": st[:i] + st[i + 1:]}
    for i, s in enumerate(st):
        if s[0] == "req" and s[2] != "gate_ok":
            yield {"steps": st[:i] + [["req", s[1], "gate_ok", s[3]] + s[4:]] + st[i + 1:]}
        if s[0] == "req" and s[1] != 1:
            yield {"steps": st[:i] + [["req", 1, s[2], s[3]] + s[4:]] + st[i + 1:]}


def gen_multi_case(rng):
    """Two or three PowerDistributingActor instances in ONE process: sequential replacement (stop X, create Y for the
    same components) and side by side (same and disjoint groups), with distributions in flight across the switch."""
    k = rng.choice([1, 2, 2, 3])
    style = rng.choice(["replace", "replace", "side", "both"])
    steps = []
    made, cur, live = 1, 0, [True]
    n = rng.choice([2, 3, 4, 6, 8, 12])
    sent = 0
    while sent < n:
        x = rng.random()
        if x < 0.5:
            mode = rng.choice(["gate_ok", "gate_ok", "gate_exc", "instant_ok", "sleep_ok", "sleep_exc"])
            steps.append(["req", rng.randint(1, k) if rng.random() > 0.07 else EMPTY, mode, rng.choice([10, 50, 200])])
            sent += 1
        elif x < 0.62 and made < 3:
            if style in ("replace", "both") and (style == "replace" or rng.random() < 0.5):
                steps.append(["replace"])
                live[cur] = False
                cur = made
            else:
                steps.append(["spawn"])
            live.append(True)
            made += 1
        elif x < 0.72 and made > 1:
            cand = [i for i in range(made) if live[i]]
            cur = rng.choice(cand)
            steps.append(["use", cur])
        elif x < 0.84:
            steps.append(["rel", rng.randint(1, k)])
        elif x < 0.95:
            steps.append(["yield", rng.choice([1, 2, 3])])
        else:
            steps.append(["sleep", rng.choice([10, 50, 60, 200])])
    return {"steps": steps}


def multi_boundary_cases():
    R = lambda g, m="gate_ok": ["req", g, m, 10]
    Y = ["yield", 3]
    return [
        # X has a distribution in flight, is stopped and replaced by Y for the same components; Y gets a request
        {"steps": [R(1), Y, ["replace"], Y, R(1), Y, ["rel", 1], Y]},
        {"steps": [R(1), Y, R(1), ["replace"], Y, R(1, "instant_ok"), R(2), Y, ["rel", 1], Y, ["rel", 1]]},
        # two live instances side by side: same group, disjoint groups
        {"steps": [["spawn"], R(1), Y, ["use", 1], R(1), Y, R(1), ["use", 0], R(1), Y, ["rel", 1], Y]},
        {"steps": [["spawn"], R(1), Y, ["use", 1], R(2), R(3, "instant_ok"), Y, ["rel", 2], ["use", 0], R(2), Y]},
        {"steps": [R(1, "sleep_ok"), ["replace"], R(1, "sleep_exc"), ["spawn"], ["use", 2], R(1, "instant_ok"), ["sleep", 20]]},
        {"steps": [R(EMPTY), Y, ["replace"], R(EMPTY, "instant_ok"), R(1), Y, ["rel", EMPTY], ["rel", 1], Y]},
    ]


def gen_wrapper_case(rng):
    """Requests sent on the wrapper's own channel: bursts for 2-3 groups within one loop turn, requests sent
    before / while `component_manager.start()` is awaited, up to a few dozen back to back (always fewer unread
    requests than the receiver's default limit of 50)."""
    k = rng.choice([2, 2, 3])
    values = rng.choice([None, [5, 6]])
    steps = []
    total = rng.choice([2, 3, 4, 6, 8, 12, 20, 30, 40])
    sent = 0
    while sent < total:
        burst = min(total - sent, rng.choice([1, 2, 2, 3, 3, 5, 10, 40]))
        for _ in range(burst):          # back to back: no yield in between
            mode = rng.choice(["gate_ok", "gate_ok", "gate_exc", "instant_ok", "instant_exc", "sleep_ok"])
            steps.append(["req", rng.randint(1, k) if rng.random() > 0.07 else EMPTY, mode, rng.choice([1, 10, 50])]
                         + ([rng.choice(values)] if values else []))
        sent += burst
        x = rng.random()
        if x < 0.5:
            steps.append(["yield", rng.choice([1, 1, 2, 5])])
        elif x < 0.7:
            steps.append(["rel", rng.randint(1, k)])
        elif x < 0.8:
            steps.append(["sleep", rng.choice([1, 10, 60, 150])])
    return {"via": "wrapper", "warm": rng.choice([0, 0, 1, 2, 3]), "mgr_start_ms": rng.choice([0, 0, 10, 100]), "steps": steps}


def wrapper_boundary_cases():
    R = lambda g, m="gate_ok": ["req", g, m, 10]
    out = []
    for warm in (0, 1, 3):
        for ms in (0, 100):
            out.append({"via": "wrapper", "warm": warm, "mgr_start_ms": ms, "steps": [R(1), R(2)]})
            out.append({"via": "wrapper", "warm": warm, "mgr_start_ms": ms, "steps": [R(1), R(2), R(3), R(1), R(2), ["yield", 3], ["rel", 1]]})
    out.append({"via": "wrapper", "warm": 3, "mgr_start_ms": 0, "steps": [R(1), ["yield", 3], R(1), R(2), R(1, "instant_ok"), R(3), ["yield", 2], ["rel", 1]]})
    out.append({"via": "wrapper", "warm": 0, "mgr_start_ms": 10, "steps": [R((i % 3) + 1, "instant_ok") for i in range(45)]})
    out.append({"via": "wrapper", "warm": 0, "mgr_start_ms": 0, "steps": [R(EMPTY), R(1), R(2, "instant_ok"), ["yield", 3], ["rel", EMPTY], ["rel", 1]]})
    out.append({"via": "wrapper", "warm": 3, "mgr_start_ms": 0, "steps": [R(1), ["yield", 2], R(EMPTY, "instant_ok"), R(1), R(3), ["yield", 3], ["rel", 1]]})
    return out


class DistStream(Stream):
    name = "schedule"
    coq_header = HEADER
    n_quick = 1200
    n_thorough = 6000
    exhaustive_quick = 4
    exhaustive_thorough = 6

    def gen(self, rng, tier):
        yield from boundary_cases()
        yield from exhaustive_cases(self.exhaustive_quick if tier == "quick" else self.exhaustive_thorough)
        for _ in range(self.n_quick if tier == "quick" else self.n_thorough):
            yield gen_case(rng)

    def run_impl(self, case):
        obs = run_case(case)
        return obs

    def to_coq(self, case, obs):
        terms = []
        for sub in instances(obs):
            log, n = sub["log"], sub["n_mid"]
            terms.append(f"(mkc {c_steps(observed_steps(log[:n]))} {c_snapshot(sub['mid'])} "
                         f"{c_steps(observed_steps(log[n:]))} {c_snapshot(sub['final'])})")
        return "[" + "; ".join(terms) + "]"

    def show_term(self, case, obs):
        return "[" + "; ".join(f"dreplay d_init {c_steps(observed_steps(sub['log']))}" for sub in instances(obs)) + "]"

    def shrink(self, case):
        for c in shrink_case(case):
            yield {**case, "steps": c["steps"]}

    def key(self, case, obs):
        steps = observed_steps(obs["log"])
        if len(steps) < 2:
            return None
        more = [[[s[0][:3], s[1]] for s in observed_steps(sub["log"])] for sub in obs.get("more", [])]
        return json.dumps([[[s[0][:3], s[1]] for s in steps]] + more)

    def labels(self, case, obs):
        log = obs["log"]
        out = []
        if obs.get("more"):
            out.append(f"instances={1 + len(obs['more'])}")
            kinds = {s_[0] for s_ in case["steps"]}
            out += ["instance_replaced" for _ in [0] if "replace" in kinds] + ["instances_side_by_side" for _ in [0] if "spawn" in kinds]
            # an instance consumed a request for a group while ANOTHER instance had a task of that group in flight
            spans = []
            for k_, sub in enumerate(instances(obs)):
                open_ = {}
                for e in sub["log"]:
                    if e[0] == "S":
                        open_[e[1]] = e[-1]
                    elif e[0] == "F" and e[1] in open_:
                        spans.append((k_, e[1], open_.pop(e[1]), e[-1]))
                for g_, t0 in open_.items():
                    spans.append((k_, g_, t0, 10**18))
            for k_, sub in enumerate(instances(obs)):
                for e in sub["log"]:
                    if e[0] == "A" and any(k2 != k_ and g2 == e[1] and t0 <= e[-1] <= t1 for k2, g2, t0, t1 in spans):
                        out.append("request_while_other_instance_has_same_group_in_flight")
        if case.get("via") == "wrapper":
            out += ["via_power_wrapper", f"warm_yields={case.get('warm', 3)}", f"manager_start_ms={case.get('mgr_start_ms', 0)}"]
            burst = best = 0
            groups_in_burst = set()
            multi = False
            for st_ in case["steps"]:
                if st_[0] == "req":
                    burst += 1
                    groups_in_burst.add(st_[1])
                    multi = multi or len(groups_in_burst) > 1
                else:
                    burst, groups_in_burst = 0, set()
                best = max(best, burst)
            out.append(f"longest_burst={'1' if best <= 1 else '2-5' if best <= 5 else '6-20' if best <= 20 else '21+'}")
            if multi:
                out.append("burst_over_several_groups")
            first_a = next((e for e in log if e[0] == "A"), None)
            if first_a is not None and case.get("warm", 3) * 1 == 0:
                out.append("sent_before_receive_loop_ran")
        out += [f"requests={min(30, sum(1 for s in case['steps'] if s[0] == 'req'))}",
               f"groups={len({s[1] for s in case['steps'] if s[0] == 'req'})}"]
        steps = observed_steps(log)
        busy = set()
        coalesced = overwritten = False
        pend = {}
        for ev, starts in steps:
            if ev[0] == "A":
                if starts:
                    if busy - {ev[1]}:
                        out.append("start_while_other_group_busy")
                    busy.add(ev[1])
                else:
                    if ev[1] in pend:
                        overwritten = True
                    pend[ev[1]] = ev[2]
                    coalesced = True
            elif ev[0] == "F":
                if starts:
                    out.append("finish_starts_pending_after_" + ("ok" if ev[2] else "exception"))
                    pend.pop(ev[1], None)
                else:
                    busy.discard(ev[1])
        if coalesced:
            out.append("request_waited")
        if any(s_[0] == "req" and s_[1] == EMPTY for s_ in case["steps"]):
            out.append("request_for_empty_component_set")
        if any(s_[0] == "mut" for s_ in case["steps"]):
            out.append("caller_mutates_shared_id_set")
        # equal values: an arriving request EQUAL to the one in flight / to the pending one (A,A / A,B,A / A,B,B)
        val = {}
        k = 0
        for st_ in case["steps"]:
            if st_[0] == "req":
                k += 1
                val[k] = (st_[1], st_[4] if len(st_) > 4 else ("id", k))
        infl, pnd = {}, {}
        for ev, starts in steps:
            if ev[0] == "A" and not starts:
                g = ev[1]
                if g in infl and val[infl[g]] == val[ev[2]]:
                    out.append("arrival_equals_inflight" + ("_with_other_pending" if g in pnd and val[pnd[g]] != val[ev[2]] else ""))
                if g in pnd and val[pnd[g]] == val[ev[2]]:
                    out.append("arrival_equals_pending")
                pnd[g] = ev[2]
            for sg, sr in starts:
                infl[sg] = sr
                pnd.pop(sg, None)
            if ev[0] == "F" and not starts:
                infl.pop(ev[1], None)
            if ev[0] == "R":
                if infl:
                    out.append("restart_while_in_flight" + ("_and_pending" if pnd else ""))
                else:
                    out.append("restart_while_idle")
        for e in log:
            if e[0] == "R":
                out.append("restart_by_" + e[1])
        if overwritten:
            out.append("pending_overwritten")
        # arrival between task end and its completion callback
        seq = [e for e in log if e[0] in "AXF"]
        for a, b in zip(seq, seq[1:]):
            if a[0] == "X" and b[0] == "A" and a[1] == b[1]:
                out.append("arrival_between_exit_and_callback")
                break
        return sorted(set(out))
