"""C09: OrderedRingBuffer / MovingWindow as a sliding time-indexed map.

Implementation side: the real `OrderedRingBuffer` (list and numpy containers) and the
real `MovingWindow` facade (constructor-made numpy buffer; for the list/numpy kinds the
facade is put around our own buffer so that `at` / `__getitem__` are exercised on both
containers).  Updates are applied with `buffer.update(sample)` exactly as
`MovingWindow._run_impl` does for every received sample.

All times are integer microseconds since the Unix epoch.  Payloads are distinct small
integers (the buffer never computes on values); the cells of the container are
pre-filled with recognisable junk (-1000 - i) so that "unwritten data" is visible.

Model side: coq/model/RingBuffer.v evaluated inside Coq.
Oracle: an independent dict-based sliding map (`SlidingMap`) — shares no code with the
implementation or the Coq model (slot rounding is done with `round(Fraction)`).
"""
from __future__ import annotations

import json
import math
import os
import tempfile
from datetime import datetime, timedelta, timezone
from fractions import Fraction

from lib.core import Stream, cZ, copt, clist

EPOCH = datetime(1970, 1, 1, tzinfo=timezone.utc)
T0 = 1_700_000_000_000_000          # µs; all generated histories live around this instant
PERIODS = [1_000_000, 1_000_000, 300_000, 300_000, 100_000]
ALIGNS = [0, 0, 123_457, -777_001]
JUNK = -1000


_ZONES = {}


def zone(name):
    """'utc' / '+02:00' (fixed offset) / an IANA zone with DST rules."""
    if name in (None, "utc"):
        return None
    if name not in _ZONES:
        if name[0] in "+-":
            h, m = int(name[1:3]), int(name[4:6])
            _ZONES[name] = timezone((1 if name[0] == "+" else -1) * timedelta(hours=h, minutes=m))
        else:
            from zoneinfo import ZoneInfo
            _ZONES[name] = ZoneInfo(name)
    return _ZONES[name]


def dt(us: int, tz=None) -> datetime:
    """the instant [us] microseconds after the epoch, stamped in UTC or in the zone [tz]
    (same instant: zoneinfo datetimes of the repeated hour get fold=1 from astimezone)"""
    d = EPOCH + timedelta(microseconds=us)
    return d if tz is None else d.astimezone(tz)


def us(d: datetime | None) -> int | None:
    if d is None:
        return None
    delta = d - EPOCH
    return (delta.days * 86400 + delta.seconds) * 10**6 + delta.microseconds


# ----------------------------------------------------------------------------- implementation driver
def _imports():
    import numpy as np
    from frequenz.channels import Broadcast
    from frequenz.quantities import Quantity
    from frequenz.sdk.timeseries import MovingWindow, Sample
    from frequenz.sdk.timeseries._ringbuffer import OrderedRingBuffer
    from frequenz.sdk.timeseries._ringbuffer import serialization
    return np, Broadcast, Quantity, MovingWindow, Sample, OrderedRingBuffer, serialization


def canon_val(x):
    """float cell -> int payload / None for NaN."""
    x = float(x)
    if math.isnan(x):
        return None
    assert x == int(x), x
    return int(x)


def canon_list(xs):
    return [canon_val(x) for x in list(xs)]


def build(case):
    np, Broadcast, Quantity, MovingWindow, Sample, ORB, _ = _imports()
    cap, p, a = case["cap"], case["period"], case["align"]
    period = timedelta(microseconds=p)
    ch = Broadcast[Sample[Quantity]](name="c09")
    mw = MovingWindow(size=cap * period, resampled_data_recv=ch.new_receiver(),
                      input_sampling_period=period, align_to=dt(a, zone(case.get("atz"))))
    mw._c09_channel = ch
    if case["kind"] == "mw":
        n = mw.capacity
        mw._buffer._buffer[:] = [float(JUNK - i) for i in range(n)]
    else:
        init = [float(JUNK - i) for i in range(cap)]
        cont = init if case["kind"] == "list" else np.array(init, dtype=float)
        mw._buffer = ORB(cont, period, dt(a, zone(case.get("atz"))))
    return mw


HUGE = 10 ** 18      # exactly representable as a float
FILLS = ["nan", "nan", "nan", "nan", "none", 0, 0, 0.0, 0.0, -0.0, 1, 1.0, -5, -5.0, float(HUGE), -HUGE]


def fillv(f):
    """case fill -> the fill_value handed to window(): 'nan' -> NaN, 'none' -> None (no filling);
    numbers are passed AS GIVEN (int 0, float 0.0 and -0.0 are different arguments for the callee)."""
    if f == "nan":
        return float("nan")
    if f == "none":
        return None
    return f


def fill_expect(f):
    """what a filled slot must read (canonical cell): None for NaN, else the integer value."""
    return None if f == "nan" else int(f)


CRASH_VAL = -987654321     # rendered to Coq for an unexpected exception: no model answer ever equals it


def scribble(res):
    """The docstring of window() promises a copy the caller may modify: modify it.  Whatever is
    returned is overwritten / extended in place; no later answer may be affected by that."""
    np = _imports()[0]
    if isinstance(res, list):
        if res:
            res[0] = -4244.0
        res.append(-4242.0)
        res.extend([-4243.0, -4243.0])
    elif isinstance(res, np.ndarray):
        if res.size and res.flags.writeable:
            res += 5000.0
            res[:] = -4245.0


def _win(res):
    out = canon_list(res)
    scribble(res)
    return out


def run_query(mw, q, via_buffer, tz=None):
    """One query -> canonical result: list of cells / one cell / 'IndexError' / 'CRASH:<exception>'."""
    k = q["k"]
    try:
        if k == "wi":
            tgt = mw._buffer if (via_buffer and not q.get("facade")) else mw
            return _win(tgt.window(q["s"], q["e"], fill_value=fillv(q["fill"])))
        if k == "wt":
            tgt = mw._buffer if (via_buffer and not q.get("facade")) else mw
            return _win(tgt.window(dt(q["s"], tz), dt(q["e"], tz), fill_value=fillv(q["fill"])))
        if k == "wm":   # mixed index / datetime
            s = dt(q["s"], tz) if q["sd"] else q["s"]
            e = q["e"] if q["sd"] else dt(q["e"], tz)
            return _win(mw.window(s, e))
        if k == "si":   # mw[s:e] with indices
            return _win(mw[q["s"]:q["e"]])
        if k == "st":   # mw[ts:ts]
            return _win(mw[dt(q["s"], tz):dt(q["e"], tz)])
        if k == "ai":
            return canon_val(mw.at(q["i"]) if q.get("via", "at") == "at" else mw[q["i"]])
        if k == "at":
            return canon_val(mw.at(dt(q["t"], tz)) if q.get("via", "at") == "at" else mw[dt(q["t"], tz)])
    except IndexError:
        return "IndexError"
    except Exception as exc:  # noqa: BLE001 - any other exception is a finding, not a harness error
        return f"CRASH:{type(exc).__name__}"
    raise AssertionError(q)


def observe(mw):
    """All observers; an observer that raises is recorded in o['crash'] (value -1 / None)."""
    b = mw._buffer
    crash = []

    def safe(name, f, dflt):
        try:
            return f()
        except Exception as exc:  # noqa: BLE001
            crash.append(f"{name} raised {type(exc).__name__}")
            return dflt
    o = {
        "cv": safe("count_valid()", lambda: int(mw.count_valid()), -1),
        "cc": safe("count_covered()", lambda: int(mw.count_covered()), -1),
        "old": safe("oldest_timestamp", lambda: us(mw.oldest_timestamp), -1),
        "new": safe("newest_timestamp", lambda: us(mw.newest_timestamp), -1),
        "gaps": safe("gaps", lambda: [[us(g.start), us(g.end)] for g in b.gaps], []),
        "cells": canon_list(b._buffer),
        "bn": None if b.time_bound_newest == b._TIMESTAMP_MIN else us(b.time_bound_newest),
    }
    if crash:
        o["crash"] = crash
    return o


def round_trip(buf, how, ser):
    """A second instance that must be indistinguishable from [buf]."""
    if how == "dump":        # serialization.dump / load through a file (the anchored module)
        fd, path = tempfile.mkstemp(suffix=".rb")
        os.close(fd)
        try:
            ser.dump(buf, path)
            return ser.load(path)
        finally:
            os.unlink(path)
    if how == "pickle":
        import pickle
        return pickle.loads(pickle.dumps(buf))
    import copy
    return copy.deepcopy(buf)


def _do_update(buf, st, Sample, Quantity, tz=None):
    """-> (rejected, crash text or None)"""
    v = st["v"]
    val = None if v is None else Quantity(float("nan") if v == "nan" else float(v))
    try:
        buf.update(Sample(dt(st["t"], tz), val))
    except IndexError:
        return True, None
    except Exception as exc:  # noqa: BLE001
        return False, f"update() raised {type(exc).__name__}"
    return False, None


class ReceiverFeed:
    """Feeds samples to a MovingWindow the way production does: through its receiver into the real
    `_run_impl` task (own event loop, no wall-clock waiting).  A too-old sample makes buffer.update()
    raise IndexError inside the task, which ends it: that is reported as 'rejected' and the task is
    started again for the next sample."""

    def __init__(self, mw):
        import asyncio
        self.asyncio = asyncio
        self.mw = mw
        self.loop = asyncio.new_event_loop()
        self.sender = mw._c09_channel.new_sender()
        self.loop.run_until_complete(self._start())

    async def _start(self):
        self.mw.start()

    async def _feed(self, sample):
        await self.sender.send(sample)
        for _ in range(12):                      # the task needs a few turns of the loop, never real time
            await self.asyncio.sleep(0)
        rej, crash = False, None
        dead = [t for t in list(self.mw._tasks) if t.done()]
        for t in dead:
            self.mw._tasks.discard(t)
            exc = None if t.cancelled() else t.exception()
            if isinstance(exc, IndexError):
                rej = True
            elif exc is not None:
                crash = f"_run_impl ended with {type(exc).__name__}"
        if dead:
            self.mw.start()
        return rej, crash

    def update(self, st, Sample, Quantity, tz):
        v = st["v"]
        val = None if v is None else Quantity(float("nan") if v == "nan" else float(v))
        return self.loop.run_until_complete(self._feed(Sample(dt(st["t"], tz), val)))

    def close(self):
        try:
            self.loop.run_until_complete(self.mw.stop())
        except BaseException:  # noqa: BLE001 - shutting down the scratch loop must never fail a case
            pass
        self.loop.close()


def run_history(case):
    """Drive the real objects.  A round-trip step (dump/load, pickle, deepcopy) replaces the buffer
    by its copy; the ORIGINAL is kept as a shadow that receives the same later updates, and every
    later observation / query answer of the copy is compared with the shadow's (o['shadow'])."""
    np, Broadcast, Quantity, MovingWindow, Sample, ORB, ser = _imports()
    mw = build(case)
    shadow = None            # facade around the never-copied original, once a round trip happened
    out = {"cap": mw.capacity, "steps": []}
    via_buffer = case["kind"] != "mw"
    tz, qtz = zone(case.get("tz")), zone(case.get("qtz"))
    feed = ReceiverFeed(mw) if (case["kind"] == "mw" and case.get("rx")) else None
    try:
        return _run_steps(case, mw, shadow, out, via_buffer, tz, qtz, feed)
    finally:
        if feed is not None:
            feed.close()


def _run_steps(case, mw, shadow, out, via_buffer, tz, qtz, feed):
    np, Broadcast, Quantity, MovingWindow, Sample, ORB, ser = _imports()
    for st in case["steps"]:
        crash = []
        if st["op"] == "rt":
            try:
                copy_ = round_trip(mw._buffer, st.get("how", "dump"), ser)
                if shadow is None:
                    shadow = build(case)
                    shadow._buffer = mw._buffer
                mw._buffer = copy_
            except Exception as exc:  # noqa: BLE001
                crash.append(f"round trip ({st.get('how', 'dump')}) raised {type(exc).__name__}")
            rej = False
        else:
            if feed is not None:
                rej, cr = feed.update(st, Sample, Quantity, tz)
            else:
                rej, cr = _do_update(mw._buffer, st, Sample, Quantity, tz)
            if cr:
                crash.append(cr)
            if shadow is not None:
                _do_update(shadow._buffer, st, Sample, Quantity, tz)
        o = observe(mw)
        o["rej"] = rej
        o["q"] = [run_query(mw, q, via_buffer, qtz) for q in st.get("q", [])]
        if crash:
            o["crash"] = crash + o.get("crash", [])
        if shadow is not None:
            so = observe(shadow)
            so.pop("crash", None)
            sq = [run_query(shadow, q, via_buffer, qtz) for q in st.get("q", [])]
            diffs = [k for k in ("cv", "cc", "old", "new", "gaps", "cells", "bn") if so[k] != o[k]]
            diffs += [f"query {n}" for n, (x, y) in enumerate(zip(sq, o["q"])) if x != y]
            if diffs:
                o["shadow"] = diffs
        out["steps"].append(o)
    return out


# ----------------------------------------------------------------------------- independent oracle
def rslot(t, p, a):
    """slot index of time t: nearest grid point, ties to the even slot (round(Fraction) is half-even)."""
    return round(Fraction(t - a, p))


def py_slice(s, e, n):
    return slice(s, e).indices(n)[:2]


class SlidingMap:
    """The property's reference object: newest slot N and the valid values per slot."""

    def __init__(self, cap, p, a):
        self.cap, self.p, self.a = cap, p, a
        self.N = None
        self.m = {}

    def ts(self, k):
        return self.a + k * self.p

    def update(self, t, v):
        k = rslot(t, self.p, self.a)
        if self.N is not None and k < self.N - self.cap + 1:
            return False
        self.N = k if self.N is None else max(self.N, k)
        for j in [j for j in self.m if j < self.N - self.cap + 1]:
            del self.m[j]
        if v is None or v == "nan":
            self.m.pop(k, None)
        else:
            self.m[k] = v
        return True

    def oldest(self):
        return min(self.m) if self.m else None

    def gap_runs(self):
        if self.N is None:
            return []
        runs, cur = [], None
        for k in range(self.N - self.cap + 1, self.N + 2):
            missing = k <= self.N and k not in self.m
            if missing and cur is None:
                cur = k
            if not missing and cur is not None:
                runs.append([self.ts(cur), self.ts(k)])
                cur = None
        return runs

    def slots_idx(self, s, e):
        if not self.m:
            return []
        o = self.oldest()
        n = self.N - o + 1
        i, j = py_slice(s, e, n)
        return list(range(o + i, o + j)) if i < j else []

    def slots_ts(self, s, e):
        if not self.m:
            return []
        lo = max(rslot(s, self.p, self.a), self.oldest())
        hi = min(rslot(e, self.p, self.a), self.N + 1)
        return list(range(lo, hi))


def judge_window(sm, slots, fill, got, what):
    """got must be, slot by slot, the stored valid value or the fill."""
    if isinstance(got, str):
        return [] if got.startswith("CRASH:") else [f"{what}: raised {got}, expected {len(slots)} slots"]
    if len(got) != len(slots):
        return [f"{what}: returned {len(got)} values {got} for the {len(slots)} covered slots "
                f"{[k - sm.N for k in slots]} (relative to newest)"]
    for k, g in zip(slots, got):
        if k in sm.m:
            if g != sm.m[k]:
                return [f"{what}: slot newest{k - sm.N:+d} holds {sm.m[k]} but {g} was returned"]
        elif fill != "none":
            exp = fill_expect(fill)
            if g != exp:
                return [f"{what}: slot newest{k - sm.N:+d} holds no valid value but {g} was returned instead of the fill value {fill!r}"]
    return []


def judge_at(sm, slot, in_range, got, what):
    """at(): stored value when the slot is valid; otherwise NaN or IndexError, never other data."""
    if isinstance(got, str) and got.startswith("CRASH:"):
        return []       # reported once as a crash
    if in_range and slot in sm.m:
        if got != sm.m[slot]:
            return [f"{what}: slot newest{slot - sm.N:+d} holds {sm.m[slot]} but got {got}"]
        return []
    if got not in (None, "IndexError"):
        return [f"{what}: {'slot newest%+d holds no valid value' % (slot - sm.N) if in_range else 'key outside the covered range'} but data {got} was returned"]
    return []


def oracle_case(case, obs):
    out = []
    cap, p, a = obs["cap"], case["period"], case["align"]
    sm = SlidingMap(cap, p, a)

    def add(i, msgs):
        # "<kind>: after step i: <details>" -- the driver shrinks while the kind (text before the
        # first colon) stays the same, so the step number must not be part of it
        for m in msgs:
            kind, _, rest = m.partition(": ")
            kind = kind.split("(")[0].split("[")[0].strip()
            out.append({"what": f"{kind}: after step {i}: {rest if m.startswith(kind + ': ') else m}", "finding": None})

    for i, (st, o) in enumerate(zip(case["steps"], obs["steps"])):
        if o.get("crash"):
            add(i, [f"crash: {'; '.join(o['crash'])}" + (" on a buffer restored by " + st.get("how", "dump") if st["op"] == "rt" else "")])
        if o.get("shadow"):
            add(i, [f"roundtrip: the restored copy differs from the original buffer fed the same history in {o['shadow']}"])
        for q, g in zip(st.get("q", []), o["q"]):
            if isinstance(g, str) and g.startswith("CRASH:"):
                add(i, [f"crash: query {q['k']} raised {g[6:]}"])
        if o.get("crash"):
            break       # an observer raised: nothing after this point is comparable
        if st["op"] == "u":
            acc = sm.update(st["t"], st["v"])
            if acc == o["rej"]:
                add(i, [f"reject: the update was {'rejected' if o['rej'] else 'accepted'} but its slot is "
                        f"{'inside' if acc else 'older than'} the window"])
                break   # the two states have diverged; later steps are not comparable
        if o["cv"] != len(sm.m):
            add(i, [f"count_valid: {o['cv']} reported, {len(sm.m)} valid slots held"])
        exp_old = sm.ts(sm.oldest()) if sm.m else None
        exp_new = sm.ts(sm.N) if sm.m else None
        if o["old"] != exp_old:
            add(i, [f"oldest_timestamp: {o['old']} reported, expected {exp_old}"])
        if o["new"] != exp_new:
            add(i, [f"newest_timestamp: {o['new']} reported, expected {exp_new}"])
        exp_cc = sm.N - sm.oldest() + 1 if sm.m else 0
        if o["cc"] != exp_cc:
            add(i, [f"count_covered: {o['cc']} reported, {exp_cc} slots between oldest and newest"])
        got_gaps = [g for g in o["gaps"] if g[0] != g[1]]       # an empty range denotes no slot
        if got_gaps != sm.gap_runs():
            add(i, [f"gaps: {got_gaps} reported, slots without a valid value are {sm.gap_runs()}"])
        for q, g in zip(st.get("q", []), o["q"]):
            k = q["k"]
            if k in ("wi", "si"):
                add(i, judge_window(sm, sm.slots_idx(q["s"], q["e"]), q.get("fill", "nan"), g, f"window[{q['s']}:{q['e']}] by index"))
            elif k in ("wt", "st"):
                add(i, judge_window(sm, sm.slots_ts(q["s"], q["e"]), q.get("fill", "nan"), g,
                                    f"window by datetimes ({Fraction(q['s'] - sm.ts(sm.N or 0), p)}, {Fraction(q['e'] - sm.ts(sm.N or 0), p)}) periods rel. newest"))
            elif k == "ai":
                if not sm.m:
                    if g != "IndexError":
                        add(i, [f"at: at({q['i']}) on an empty window returned {g}"])
                    continue
                n = sm.N - sm.oldest() + 1
                slot = sm.oldest() + q["i"] if q["i"] >= 0 else sm.N + 1 + q["i"]
                add(i, judge_at(sm, slot, -n <= q["i"] < n, g, f"at(index {q['i']})"))
            elif k == "at":
                if not sm.m:
                    if g != "IndexError":
                        add(i, [f"at: at(datetime) on an empty window returned {g}"])
                    continue
                inr = sm.ts(sm.oldest()) <= q["t"] <= sm.ts(sm.N)
                add(i, judge_at(sm, rslot(q["t"], p, a), inr, g, f"at(datetime {Fraction(q['t'] - sm.ts(sm.N), p)} periods rel. newest)"))
    return out


# ----------------------------------------------------------------------------- generation
def off_choice(rng, p):
    """offset inside a slot: on the grid, a microsecond off, exactly half a period, around half, anywhere."""
    h = p // 2
    r = rng.random()
    if r < 0.40:
        return 0
    if r < 0.50:
        return rng.choice([1, -1])
    if r < 0.66:
        return rng.choice([h, -h])
    if r < 0.76:
        return rng.choice([h - 1, h + 1, -h + 1, -h - 1])
    return rng.randrange(-h + 1, h)


def gen_queries(rng, case, newest_slot, n):
    cap, p, a = case["cap"], case["period"], case["align"]
    qs = []
    base = newest_slot if newest_slot is not None else case.get("base", T0) // p
    fills = FILLS

    def rts():
        r = rng.random()
        if r < 0.08:
            return a + (base + rng.choice([-1, 1]) * rng.randrange(cap + 2, 5 * cap + 9)) * p + off_choice(rng, p)
        return a + (base + rng.randrange(-cap - 2, 4)) * p + off_choice(rng, p)

    def ridx():
        return rng.choice([None, None] + list(range(-cap - 3, cap + 4)))

    for _ in range(n):
        r = rng.random()
        if r < 0.22:
            qs.append({"k": "wi", "s": ridx(), "e": ridx(), "fill": rng.choice(fills), "facade": rng.random() < 0.3})
        elif r < 0.27:
            qs.append({"k": "si", "s": ridx(), "e": ridx()})
        elif r < 0.52:
            s, e = rts(), rts()
            if rng.random() < 0.7 and s > e:
                s, e = e, s
            qs.append({"k": "wt", "s": s, "e": e, "fill": rng.choice(fills), "facade": rng.random() < 0.3})
        elif r < 0.64:   # closer together than one period
            s = rts()
            qs.append({"k": "wt", "s": s, "e": s + rng.choice([0, 1, p // 3, p // 2, p - 1, p]), "fill": rng.choice(fills)})
        elif r < 0.68:
            s, e = sorted([rts(), rts()])
            qs.append({"k": "st", "s": s, "e": e})
        elif r < 0.70:
            sd = rng.random() < 0.5
            qs.append({"k": "wm", "sd": sd, "s": rts() if sd else ridx(), "e": ridx() if sd else rts()})
        elif r < 0.85:
            qs.append({"k": "ai", "i": rng.randrange(-cap - 2, cap + 3), "via": rng.choice(["at", "item"])})
        else:
            qs.append({"k": "at", "t": rts(), "via": rng.choice(["at", "item"])})
    # a mixed query needs one real index: make sure (None never reaches a datetime partner as 'index')
    return qs


# (zone, instants [s since epoch] of DST transitions: fall back = an hour of wall-clock time repeats
# with fold=1, spring forward = an hour is skipped)
DST_ZONES = [("Europe/Berlin", [1698541200, 1679792400]), ("America/New_York", [1699164000, 1678604400]),
             ("Australia/Lord_Howe", [1680363000, 1696087800]), ("+02:00", [1698541200]), ("-09:30", [1679792400])]


ALIGN_ZONES = ["+05:30", "-09:30", "+05:45", "+00:17", "-03:30", "Asia/Kolkata", "Europe/Berlin", "Australia/Lord_Howe"]


def gen_case(rng, nq_lo=2, nq_hi=4, maxlen=40, caps=None):
    cap = rng.choice(caps or [1, 1, 2, 2, 3, 3, 3, 4, 4, 5, 5, 6, 7, 8])
    p = rng.choice(PERIODS)
    a = rng.choice(ALIGNS)
    kind = rng.choice(["list", "numpy", "mw"])
    case = {"cap": cap, "period": p, "align": a, "kind": kind, "steps": []}
    if kind == "mw" and rng.random() < 0.6:
        case["rx"] = True      # samples travel through the MovingWindow's receiver and its _run_impl task
    n = rng.choice([1, 2, 3, 4, 5, 6, 8, 10, 12, 16, 20, 30, maxlen])
    n = min(n, maxlen)
    style = rng.choice(["mixed", "mixed", "mixed", "inorder", "gappy", "jumpy"])
    t_first = T0
    if rng.random() < 0.18:
        # align_to given as an aware datetime in a non-UTC zone (construction path of MovingWindow and of
        # the buffer) with periods the zone's offset is NOT a multiple of: the grid is defined by the INSTANT
        case["atz"] = rng.choice(ALIGN_ZONES)
        p = case["period"] = rng.choice([3_600_000_000, 3_600_000_000, 7_000_000, 700_000, 900_000_000, 1_000_000])
        a = case["align"] = rng.choice([0, 123_457, -777_001, T0 - 86_400_000_000 - (T0 % 86_400_000_000) - 19_800_000_000])
    if rng.random() < 0.15:
        # datetimes stamped in another zone (fixed offset, or a zone with DST rules) while the window
        # slides through a DST transition: the same instants must give the same results as in UTC
        zname, transitions = rng.choice(DST_ZONES)
        p = case["period"] = rng.choice([900_000_000, 900_000_000, 1_800_000_000, 1_000_000])
        case["tz"] = zname
        case["qtz"] = rng.choice([zname, zname, "utc"])
        case["base"] = rng.choice(transitions) * 1_000_000
        t_first = case["base"] - rng.randrange(0, cap + 3) * p
        n = max(n, rng.choice([6, 10, 14]))
        style = rng.choice(["inorder", "inorder", "mixed"])
    newest = None
    nextv = 10
    hows = ["dump", "dump", "pickle", "deepcopy"]

    def rt_step():
        return {"op": "rt", "how": rng.choice(hows), "q": gen_queries(rng, case, newest, 2)}
    if rng.random() < 0.2:          # copy the buffer BEFORE anything was written to it
        case["steps"].append(rt_step())
    for _ in range(n):
        if newest is None:
            k = (t_first - a) // p + (rng.randrange(0, 50) if (t_first == T0 and p < 100_000_000) else 0)
        else:
            r = rng.random()
            if style == "inorder":
                r = r * 0.5
            elif style == "gappy":
                r = 0.3 + r * 0.5
            elif style == "jumpy":
                r = 0.55 + r * 0.45
            if r < 0.40:
                k = newest + 1
            elif r < 0.50:
                k = newest                          # duplicate of the newest
            elif r < 0.62:
                k = newest - rng.randrange(0, cap)   # out of order / duplicate inside the window
            elif r < 0.74:
                k = newest + rng.randrange(2, cap + 2)   # gap (up to a jump of exactly cap)
            elif r < 0.84:
                k = newest + cap + rng.randrange(0, 4)   # jump >= capacity
            elif r < 0.92:
                k = newest - cap - rng.randrange(0, 3)   # too old
            else:
                k = newest - cap + 1                 # oldest slot still inside
        vr = rng.random()
        if vr < 0.74:
            v = nextv
            nextv += 1
        elif vr < 0.87:
            v = None
        else:
            v = "nan"
        t = a + k * p + off_choice(rng, p)
        kk = rslot(t, p, a)
        rejected = newest is not None and kk < newest - cap + 1
        far = newest is None or kk - newest >= cap
        if not rejected:
            newest = kk if newest is None else max(newest, kk)
        step = {"op": "u", "t": t, "v": v}
        step["q"] = gen_queries(rng, case, newest, rng.randint(nq_lo, nq_hi))
        case["steps"].append(step)
        # copies at every kind of point: anywhere, and preferably right after a reject / a far jump
        if rng.random() < (0.3 if (rejected or far) else 0.05):
            case["steps"].append(rt_step())
    return case


def boundary_cases():
    """Hand-written: the shapes of the preliminary findings F11, F12, F13 and neighbours."""
    out = []
    p, a = 1_000_000, 0
    B = T0 // p

    def U(k, v, off=0, q=None):
        return {"op": "u", "t": a + (B + k) * p + off, "v": v, "q": q or []}

    def WT(s, e, fill="nan"):
        return {"k": "wt", "s": a + B * p + int(s * p), "e": a + B * p + int(e * p), "fill": fill}
    for kind in ("list", "numpy", "mw"):
        # F11: both ends round to one slot / F12: unaligned start with a gap in range
        out.append({"cap": 5, "period": p, "align": a, "kind": kind, "steps": [
            U(0, 10), U(1, 11), U(2, 12), U(3, 13),
            U(4, 14, q=[WT(2.1, 2.3), WT(1.4, 3.6), WT(2.5, 3.5), WT(1.5, 2.5), WT(0.5, 1.5)])]})
        out.append({"cap": 6, "period": p, "align": a, "kind": kind, "steps": [
            U(0, 10), U(1, 11), U(2, 12), U(4, 14),
            U(5, 15, q=[WT(2, 5), WT(1.6, 5), WT(2.4, 5), WT(2.4, 5, -5), WT(2.4, 5, "none")])]})
        # F13: at() on a jump-gap slot, one past the end, before the oldest valid
        out.append({"cap": 6, "period": p, "align": a, "kind": kind, "steps": [
            U(0, 10), U(1, 11), U(4, 14),
            U(5, 15, q=[{"k": "ai", "i": 2}, {"k": "ai", "i": 3, "via": "item"}, {"k": "at", "t": a + (B + 3) * p},
                        {"k": "at", "t": a + (B + 2) * p + 400_000}, {"k": "ai", "i": 6}, {"k": "ai", "i": -6},
                        {"k": "ai", "i": -7}, {"k": "ai", "i": 5}, {"k": "ai", "i": -1}])]})
        out.append({"cap": 4, "period": p, "align": a, "kind": kind, "steps": [
            U(0, None), U(1, 11), U(2, "nan"),
            U(3, 13, q=[{"k": "ai", "i": 0}, {"k": "ai", "i": 1}, {"k": "ai", "i": 3}, {"k": "ai", "i": -4},
                        {"k": "ai", "i": -3}, {"k": "wi", "s": None, "e": None, "fill": "nan"}])]})
    # copies (serialization.dump/load, pickle, deepcopy) of a NEVER-updated buffer, after a rejected
    # update, after a far jump, with gaps present: the copy must go on exactly like the original
    p, a = 1_000_000, 0
    for kind in ("list", "numpy", "mw"):
        for how in ("dump", "pickle", "deepcopy"):
            full = [{"k": "wi", "s": None, "e": None, "fill": "nan"}, {"k": "ai", "i": 0}, {"k": "ai", "i": -1},
                    {"k": "wt", "s": a + (B - 3) * p + 400_000, "e": a + (B + 9) * p, "fill": -5}]
            RT = {"op": "rt", "how": how, "q": full}
            out.append({"cap": 4, "period": p, "align": a, "kind": kind, "steps": [
                dict(RT), U(0, 10, q=full), U(1, None, q=full), dict(RT), U(-9, 11, q=full), dict(RT),
                U(3, 13, q=full), dict(RT), U(2, 12, q=full), U(20, 14, q=full), dict(RT), U(19, "nan", q=full),
                U(21, 15, q=full)]})
            out.append({"cap": 1, "period": p, "align": a, "kind": kind, "steps": [
                dict(RT), dict(RT), U(0, None, q=full), dict(RT), U(0, 10, q=full), U(5, 11, q=full), dict(RT),
                U(5, None, q=full), U(4, 9, q=full), dict(RT), U(6, 12, q=full)]})
    # fill_value as a dimension of window(): every kind of value, gaps absent / inside / at the edges,
    # by index and by datetime, on the ring buffer and through MovingWindow.window
    all_fills = ["nan", "none", 0, 0.0, -0.0, 1, 1.0, -5, float(HUGE), -HUGE]
    for kind in ("list", "numpy", "mw"):
        fq = []
        for f in all_fills:
            for facade in (False, True):
                fq.append({"k": "wi", "s": None, "e": None, "fill": f, "facade": facade})
                fq.append({"k": "wt", "s": a + (B - 2) * p + 300_000, "e": a + (B + 12) * p + 700_000, "fill": f, "facade": facade})
            fq.append({"k": "wi", "s": 1, "e": -1, "fill": f})
        out.append({"cap": 6, "period": p, "align": a, "kind": kind, "steps": [     # no gap, then a pause, then None samples
            U(0, 10), U(1, 11), U(2, 12), U(3, 13), U(4, 14), U(5, 15, q=fq),       # gaps absent
            U(8, 18, q=fq),                                                          # slots 6,7 skipped: evicted cells behind a gap
            U(9, None, q=fq), U(4, None), U(10, 20, q=fq),                           # None samples inside the window
            U(5, None, q=fq), U(11, None, q=fq)]})                                   # gaps at both edges
        out.append({"cap": 3, "period": p, "align": a, "kind": kind, "steps": [
            U(0, None, q=fq), U(1, 11, q=fq), U(2, "nan", q=fq), U(7, 17, q=fq), U(6, 16, q=fq)]})
    # datetimes stamped in a zone with DST rules while the window slides through a transition
    # (fall back: the repeated hour, fold=1; spring forward: the skipped hour), 15 min period
    pz = 900_000_000
    for zname, trans in DST_ZONES[:2]:
        for tr in trans:
            for kind, qtz in (("list", zname), ("numpy", "utc"), ("mw", zname)):
                t0 = tr * 1_000_000 - 8 * pz
                steps = []
                for i in range(16):
                    t = t0 + i * pz
                    qs = [{"k": "wi", "s": None, "e": None, "fill": "nan"},
                          {"k": "wt", "s": t - 5 * pz + 1, "e": t + pz, "fill": 0},
                          {"k": "wt", "s": t - 2 * pz, "e": t, "fill": "nan"},
                          {"k": "at", "t": t - pz}, {"k": "at", "t": t}, {"k": "ai", "i": -1}]
                    steps.append({"op": "u", "t": t, "v": 100 + i, "q": qs})
                out.append({"cap": 8, "period": pz, "align": 0, "kind": kind, "tz": zname, "qtz": qtz,
                            "base": tr * 1_000_000, "steps": steps})
    # align_to = local midnight in a zone whose offset is not a whole number of periods; hourly slots,
    # samples on the local full hour (construction path of MovingWindow and of the plain buffer)
    ph = 3_600_000_000
    for atz, off_s in (("+05:30", 19800), ("-09:30", -34200), ("Asia/Kolkata", 19800)):
        a0 = (T0 // 86_400_000_000) * 86_400_000_000 - off_s * 1_000_000      # local midnight, as an instant
        for kind, capn in (("mw", 24), ("list", 6), ("numpy", 6), ("mw", 5)):
            steps = []
            for i in range(capn + 3):
                t = a0 + i * ph
                steps.append({"op": "u", "t": t, "v": 100 + i, "q": [
                    {"k": "wi", "s": None, "e": None, "fill": "nan"}, {"k": "at", "t": t}, {"k": "at", "t": t - ph},
                    {"k": "wt", "s": t - 3 * ph, "e": t + ph, "fill": 0}]})
            out.append({"cap": capn, "period": ph, "align": a0, "atz": atz, "kind": kind, "base": a0, "steps": steps})
    # samples with value None / NaN through the MovingWindow's receiver (_run_impl): None overwriting a
    # valid slot, None as the newest sample, None far ahead (evicts everything), None too old (rejected)
    fullq = [{"k": "wi", "s": None, "e": None, "fill": "nan"}, {"k": "ai", "i": -1}, {"k": "ai", "i": 0}]
    for miss in (None, "nan"):
        out.append({"cap": 4, "period": p, "align": a, "kind": "mw", "rx": True, "steps": [
            U(0, 10, q=fullq), U(1, 11, q=fullq), U(2, 12, q=fullq), U(3, 13, q=fullq), U(2, miss, q=fullq),
            U(4, miss, q=fullq), U(5, 15, q=fullq), U(0, miss, q=fullq), U(20, miss, q=fullq), U(21, 31, q=fullq),
            U(19, miss, q=fullq), U(2, 99, q=fullq), U(22, 32, q=fullq)]})
    out.append({"cap": 3, "period": p, "align": a, "kind": "mw", "rx": True, "steps": [
        U(0, None, q=fullq), {"op": "rt", "how": "dump", "q": fullq}, U(1, 11, q=fullq), U(1, None, q=fullq),
        U(-5, 5, q=fullq), U(2, 12, q=fullq)]})
    # a caller that modifies what window() returned (empty and non-empty results), then asks again
    e1 = {"k": "wt", "s": a + (B - 30) * p, "e": a + (B - 20) * p, "fill": "nan"}      # covers no slot
    e2 = {"k": "wt", "s": a + (B + 2) * p, "e": a + (B + 2) * p, "fill": "nan"}        # start == end
    f1 = {"k": "wt", "s": a + (B + 1) * p, "e": a + (B + 4) * p, "fill": "nan"}
    for kind in ("list", "numpy", "mw"):
        out.append({"cap": 5, "period": p, "align": a, "kind": kind, "steps": [
            {"op": "u", "t": a + B * p, "v": None, "q": [dict(e1), dict(f1), dict(e1), {"k": "wi", "s": None, "e": None, "fill": 0}]},
            U(1, 11, q=[dict(e1), dict(e2), dict(f1), dict(e1), dict(e2), {"k": "si", "s": 3, "e": 1}, {"k": "si", "s": 3, "e": 1}]),
            U(2, 12), U(3, 13, q=[dict(f1), dict(e1), dict(f1), dict(e2), {"k": "wi", "s": 4, "e": 2, "fill": 1}, dict(e1)])]})
    # count_covered with a period that is not a binary fraction (3 * 0.1 s // 0.1 s)
    p = 100_000
    B = T0 // p
    out.append({"cap": 4, "period": p, "align": 0, "kind": "list", "steps": [
        {"op": "u", "t": (B + k) * p, "v": 10 + k, "q": [{"k": "wi", "s": None, "e": None, "fill": "nan"}, {"k": "ai", "i": -1}]}
        for k in range(4)]})
    return out


def small_scope_cases():
    """Every history of length <= 4 over a 7-letter alphabet of updates (relative to the newest
    slot: in order, duplicate, out of order, gap, jump = capacity, too old, oldest slot; valid or
    missing alternating by position) at capacities 1..3, queried by the full window and at()."""
    import itertools
    out = []
    p, a = 1_000_000, 0
    B = T0 // p
    letters = ["next", "dup", "back", "gap", "jump", "old", "edge"]
    for cap in (1, 2, 3):
        for n in (1, 2, 3, 4):
            for word in itertools.product(letters, repeat=n):
                for miss in (0, 1):
                    newest, steps, val = None, [], 10
                    for i, w in enumerate(word):
                        if newest is None:
                            k = B
                        else:
                            k = {"next": newest + 1, "dup": newest, "back": newest - 1, "gap": newest + 2,
                                 "jump": newest + cap, "old": newest - cap, "edge": newest - cap + 1}[w]
                        v = None if (i % 2 == miss and w in ("dup", "back", "gap", "next")) else val
                        val += 1
                        if newest is None or k >= newest - cap + 1:
                            newest = k if newest is None else max(newest, k)
                        q = [{"k": "wi", "s": None, "e": None, "fill": "nan"},
                             {"k": "wt", "s": (newest - cap) * p + 400_000, "e": (newest + 1) * p - 400_000, "fill": (-5, 0, 0.0, -0.0)[i % 4]},
                             {"k": "ai", "i": 0}, {"k": "ai", "i": -1}, {"k": "ai", "i": 1}]
                        steps.append({"op": "u", "t": k * p, "v": v, "q": q})
                    out.append({"cap": cap, "period": p, "align": a, "kind": "list", "steps": steps})
                    if n <= 3:       # the same history with a copy of the buffer taken at each position
                        for pos in range(n + 1):
                            how = ("dump", "pickle", "deepcopy")[(pos + n + miss) % 3]
                            rt = {"op": "rt", "how": how, "q": steps[0]["q"][:1] + steps[0]["q"][2:4]}
                            out.append({"cap": cap, "period": p, "align": a, "kind": ("list", "numpy")[pos % 2],
                                        "steps": steps[:pos] + [rt] + steps[pos:]})
    return out


def shrink_case(case):
    st = case["steps"]
    for i in range(len(st) - 1, -1, -1):
        yield {**case, "steps": st[:i] + st[i + 1:]}
    for i, s in enumerate(st):
        qs = s.get("q", [])
        if len(qs) > 1:
            for j in range(len(qs)):
                yield {**case, "steps": st[:i] + [{**s, "q": [qs[j]]}] + st[i + 1:]}
            yield {**case, "steps": st[:i] + [{**s, "q": []}] + st[i + 1:]}
        elif len(qs) == 1 and i < len(st) - 1:
            yield {**case, "steps": st[:i] + [{**s, "q": []}] + st[i + 1:]}
    if case["kind"] != "list":
        yield {**case, "kind": "list"}


# ----------------------------------------------------------------------------- Coq rendering
HEADER = """From Verif Require Import model.RingBuffer.
Definition check := check_case.
"""


def rel(t):
    """times are handed to Coq relative to T0 (16-digit literals are what makes coqc slow);
    the align point is shifted by the same amount, so slot numbers are unchanged."""
    return None if t is None else t - _BASE[0]


_BASE = [T0]     # set per case by case_term / show_term (rendering is single-threaded)


def c_cell(v):
    return copt(v)


def c_fill(f):
    if f == "none":
        return "None"
    if f == "nan":
        return "(Some None)"
    return f"(Some (Some {cZ(int(f))}))"


def c_result(r):
    if r == "IndexError":
        return "RErr"
    if isinstance(r, str) and r.startswith("CRASH:"):
        return f"(RVal (Some {cZ(CRASH_VAL)}))"
    if isinstance(r, list):
        return f"(RList {clist(r, c_cell)})"
    return f"(RVal {c_cell(r)})"


def c_query(q):
    k = q["k"]
    if k == "wi":
        return f"(QWinIdx {copt(q['s'])} {copt(q['e'])} {c_fill(q['fill'])})"
    if k == "si":
        return f"(QWinIdx {copt(q['s'])} {copt(q['e'])} (Some None))"
    if k == "wt":
        return f"(QWinTs {cZ(rel(q['s']))} {cZ(rel(q['e']))} {c_fill(q['fill'])})"
    if k == "st":
        return f"(QWinTs {cZ(rel(q['s']))} {cZ(rel(q['e']))} (Some None))"
    if k == "wm":
        return "QWinMixed"
    if k == "ai":
        return f"(QAtIdx {cZ(q['i'])})"
    if k == "at":
        return f"(QAtTs {cZ(rel(q['t']))})"
    raise AssertionError(q)


def c_obs(o):
    gaps = "[" + "; ".join(f"({cZ(rel(g[0]))}, {cZ(rel(g[1]))})" for g in o["gaps"]) + "]"
    cv = -1 if o.get("crash") else o["cv"]       # an unexpected exception never agrees with the model
    return (f"(mkObs {'true' if o['rej'] else 'false'} {cZ(cv)} {cZ(o['cc'])} {copt(rel(o['old']))} {copt(rel(o['new']))} "
            f"{gaps} {clist(o['cells'], c_cell)} {copt(rel(o['bn']))})")


def c_step(st, o):
    qs = "[" + "; ".join(f"({c_query(q)}, {c_result(r)})" for q, r in zip(st.get("q", []), o["q"])) + "]"
    if st["op"] == "rt":
        head = "SRoundTrip"
    else:
        v = st["v"]
        head = f"(SUpdate {cZ(rel(st['t']))} {c_cell(None if v in (None, 'nan') else v)})"
    return f"({head}, {c_obs(o)}, {qs})"


def case_term(case, obs):
    _BASE[0] = case.get("base", T0)
    cap = obs["cap"]
    init = clist([JUNK - i for i in range(cap)], lambda v: f"(Some {cZ(v)})")
    steps = "[" + ";\n    ".join(c_step(s, o) for s, o in zip(case["steps"], obs["steps"])) + "]"
    return f"({cZ(case['period'])}, {cZ(rel(case['align']))}, {init},\n   {steps})"


def show_term(case, obs):
    _BASE[0] = case.get("base", T0)
    cap = obs["cap"]
    init = clist([JUNK - i for i in range(cap)], lambda v: f"(Some {cZ(v)})")
    steps = "[" + "; ".join(
        "(" + ("SRoundTrip" if s["op"] == "rt" else f"(SUpdate {cZ(rel(s['t']))} {c_cell(None if s['v'] in (None, 'nan') else s['v'])})")
        + ", [" + "; ".join(c_query(q) for q in s.get("q", [])) + "])" for s in case["steps"]) + "]"
    return f"run_show {cZ(case['period'])} {cZ(rel(case['align']))} {init} {steps}"


# ----------------------------------------------------------------------------- stream
class RingStream(Stream):
    name = "history"
    coq_header = HEADER
    n_quick = 2400
    n_thorough = 24000

    def gen(self, rng, tier):
        cases = boundary_cases()
        n = self.n_quick if tier == "quick" else self.n_thorough
        for i in range(n):
            if i % 12 == 0:     # dense: ~20 queries after every update
                cases.append(gen_case(rng, 18, 22, maxlen=40))
            else:
                cases.append(gen_case(rng, 2, 4, maxlen=40))
        if tier != "quick":
            cases += small_scope_cases()
        # the implementation runs are independent of each other: do them on all cores and hand
        # the observations to run_impl() below (same function, same interpreter, forked workers)
        self._keep = cases
        self._cache = {}
        try:
            import multiprocessing as mp
            with mp.get_context("fork").Pool(int(os.environ.get("VERIF_JOBS", "16"))) as pool:
                for c, o in zip(cases, pool.map(run_history, cases, chunksize=16)):
                    self._cache[id(c)] = o
        except (OSError, ValueError):
            self._cache = {}
        yield from cases

    def run_impl(self, case):
        o = getattr(self, "_cache", {}).pop(id(case), None)
        if isinstance(case, dict) and case.get("debug_log"):
            return run_history(case)     # flagged by the driver after gen(): run here, inside its debug-logging context
        return o if o is not None else run_history(case)

    def to_coq(self, case, obs):
        return case_term(case, obs)

    def show_term(self, case, obs):
        return show_term(case, obs)

    def oracle(self, case, obs):
        return oracle_case(case, obs)

    def shrink(self, case):
        return shrink_case(case)

    def key(self, case, obs):
        ups = [s for s in case["steps"] if s["op"] == "u"]
        if len(ups) < 2:
            return None
        return json.dumps(case, sort_keys=True)

    def labels(self, case, obs):
        out = [f"cap={case['cap']}", f"period_us={case['period']}", f"kind={case['kind']}",
               f"align={'epoch' if case['align'] == 0 else 'offset'}", f"tz={case.get('tz', 'utc')}", f"align_tz={case.get('atz', 'utc')}", f"mw_receiver_path={bool(case.get('rx'))}",
               f"updates={min(10 * (len(case['steps']) // 10), 40)}+"]
        p, a, cap = case["period"], case["align"], obs["cap"]
        newest = None
        seen = set()
        prev_kind = None
        for st, o in zip(case["steps"], obs["steps"]):
            if st["op"] == "rt":
                seen.add("copy_" + st.get("how", "dump"))
                if newest is None:
                    seen.add("copy_before_first_update")
                elif prev_kind:
                    seen.add("copy_right_after_" + prev_kind)
                if o["gaps"]:
                    seen.add("copy_with_gaps_present")
                prev_kind = None
                continue
            k = rslot(st["t"], p, a)
            off = st["t"] - (a + k * p)
            if off != 0:
                seen.add("update_off_grid")
            if abs(2 * off) == p:
                seen.add("update_exact_half_period")
            if st["v"] in (None, "nan"):
                seen.add("update_missing_" + ("none" if st["v"] is None else "nan"))
            if o["rej"]:
                seen.add("update_rejected_too_old")
            elif newest is not None:
                if k == newest + 1:
                    seen.add("update_in_order")
                elif k > newest + 1 and k - newest < cap:
                    seen.add("update_gap")
                elif k - newest >= cap:
                    seen.add("update_jump_ge_capacity")
                elif k == newest:
                    seen.add("update_duplicate_newest")
                elif k == newest - cap + 1:
                    seen.add("update_oldest_slot")
                else:
                    seen.add("update_out_of_order")
            prev_kind = "reject" if o["rej"] else ("far_jump" if (newest is None or k - newest >= cap) else "update")
            if not o["rej"]:
                newest = k if newest is None else max(newest, k)
            if len(o["gaps"]) >= 2:
                seen.add("two_or_more_gaps")
            for q, r in zip(st.get("q", []), o["q"]):
                seen.add("query_" + q["k"])
                if r == "IndexError":
                    seen.add("query_index_error")
                if q["k"] in ("wt", "st"):
                    if (q["s"] - a) % p or (q["e"] - a) % p:
                        seen.add("query_datetimes_unaligned")
                    if 0 <= q["e"] - q["s"] < p:
                        seen.add("query_datetimes_closer_than_period")
                if isinstance(r, list) and None in r:
                    seen.add("query_result_has_fill")
                if q["k"] in ("wi", "wt"):
                    f = q["fill"]
                    seen.add("fill=" + (f if isinstance(f, str) else ("-0.0" if (isinstance(f, float) and f == 0 and str(f)[0] == "-")
                                                                        else "huge" if abs(f) >= HUGE else repr(f))))
                    if q.get("facade") or case["kind"] == "mw":
                        seen.add("fill_via_MovingWindow.window")
                    if isinstance(r, list) and r:
                        seen.add("fill_query_with_gaps_present" if o["gaps"] else "fill_query_without_gaps")
        return out + sorted(seen)
