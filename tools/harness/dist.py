"""C01 / C02: battery power distribution (BatteryDistributionAlgorithm.distribute_power and the
`distributed = request - remaining` step of BatteryManager._distribute_power).

Implementation side: the REAL `distribute_power` on duck-typed battery / inverter records whose
numbers are `lib.exact.X` (exact rationals), so results are comparable bit-for-bit with the Q
model in coq/model/Dist.v; a second run on ordinary floats is compared with the exact run within
a tolerance (supporting evidence only).  A line tracer on the algorithm's source gives the branch
labels of every run (input-distribution statistics and known-finding triggers)."""
from __future__ import annotations

import json
import math
import sys
from fractions import Fraction as F
from types import SimpleNamespace as NS

from lib.core import Stream, cZ
from lib.exact import X

TOL = F(1, 10 ** 6)          # slack of the oracle clauses (the code's own tolerances are 1e-9)
ZERO_TOL = F(1, 10 ** 9)     # is_close_to_zero


# ----------------------------------------------------------------------------- numbers in JSON
def fr(v) -> F:
    if isinstance(v, (list, tuple)):
        return F(int(v[0]), int(v[1]))
    return F(v)


def js(v):
    """canonical JSON form of a rational: int when integral, else [num, den]"""
    v = v.q if isinstance(v, X) else F(v)
    return int(v) if v.denominator == 1 else [v.numerator, v.denominator]


def cQ(v) -> str:
    v = fr(v)
    return f"({v.numerator} # {v.denominator})"


# ----------------------------------------------------------------------------- records
BAT_F = ("cap", "soc", "lo", "hi", "il", "el", "eu", "iu")
INV_F = ("il", "el", "eu", "iu")


def _bat(b, num):
    return NS(component_id=b["id"], capacity=num(fr(b["cap"])), soc=num(fr(b["soc"])),
              soc_lower_bound=num(fr(b["lo"])), soc_upper_bound=num(fr(b["hi"])),
              power_inclusion_lower_bound=num(fr(b["il"])), power_exclusion_lower_bound=num(fr(b["el"])),
              power_exclusion_upper_bound=num(fr(b["eu"])), power_inclusion_upper_bound=num(fr(b["iu"])))


def _inv(i, num):
    return NS(component_id=i["id"], active_power_inclusion_lower_bound=num(fr(i["il"])),
              active_power_exclusion_lower_bound=num(fr(i["el"])),
              active_power_exclusion_upper_bound=num(fr(i["eu"])),
              active_power_inclusion_upper_bound=num(fr(i["iu"])))


def _alg():
    from frequenz.sdk.microgrid._power_distributing._distribution_algorithm import (
        AggregatedBatteryData, BatteryDistributionAlgorithm, InvBatPair)
    return AggregatedBatteryData, BatteryDistributionAlgorithm, InvBatPair


def build(case, num):
    Agg, _, Pair = _alg()
    return [Pair(Agg([_bat(b, num) for b in g["bats"]]), [_inv(i, num) for i in g["invs"]]) for g in case["groups"]]


# ----------------------------------------------------------------------------- branch labels from the real run
_LABEL_SNIPPETS = {
    "all_zero_ratio": "return DistributionResult(final_distribution, power_w)",
    "zero_ratio_skip": "upper_bound=0.0,",
    "over_incl": "excess_reserved[inverter_set] = incl_bound - ratio_data.min_power",
    "deficit": "deficits[inverter_set] = calculated_power - ratio_data.min_power",
    "deficit_covered": "deficits[inverter_ids] = 0.0",
    "deficit_partly": "excess_reserved[largest.inverter_ids] = 0.0",
    "greedy": "power.power += additional_power",
    "multi_inverter": "remaining_power = power.power",
    "split_skip": "set_points[inverter_id] = 0.0",
    "supply": "result.remaining_power *= -1",
    "set_unused": "set_points = dict.fromkeys(set_points, 0.0)",
}
_label_lines: dict[int, str] | None = None
_alg_file = None


def _label_table():
    global _label_lines, _alg_file
    if _label_lines is None:
        import frequenz.sdk.microgrid._power_distributing._distribution_algorithm._battery_distribution_algorithm as m
        _alg_file = m.__file__
        _label_lines = {}
        for n, line in enumerate(open(_alg_file).read().splitlines(), 1):
            for lb, snip in _LABEL_SNIPPETS.items():
                if snip in line:
                    _label_lines[n] = lb
    return _label_lines


def traced(fn):
    """run fn() and return (result, sorted labels of the algorithm's branches that executed)"""
    table = _label_table()
    hit = set()

    def local(frame, event, arg):
        if event == "line":
            lb = table.get(frame.f_lineno)
            if lb:
                hit.add(lb)
        return local

    def glob(frame, event, arg):
        if frame.f_code.co_filename == _alg_file:
            return local
        return None
    old = sys.gettrace()
    sys.settrace(glob)
    try:
        r = fn()
    finally:
        sys.settrace(old)
    return r, sorted(hit)


# ----------------------------------------------------------------------------- implementation driver
def run_impl(case, with_float=True, trace=True):
    """distribute_power on exact numbers (+ the BatteryManager subtraction) and, as supporting
    evidence, on floats."""
    _, Alg, _ = _alg()
    p = fr(case["power"])
    exp = case["exp"]
    obs = {"err": None, "dist": None, "rem": None, "distributed": None, "labels": [], "float": None}
    try:
        pairs = build(case, X)
        call = lambda: Alg(exp).distribute_power(X(p), pairs)
        res, labels = traced(call) if trace else (call(), [])
        obs["labels"] = labels
        obs["dist"] = sorted([int(k), js(v)] for k, v in res.distribution.items())
        obs["rem"] = js(res.remaining_power)
        # BatteryManager._distribute_power: distributed_power_value = request - remaining
        obs["distributed"] = js(X(p) - res.remaining_power)
    except Exception as e:  # noqa: BLE001  (any exception is an observation; in-domain ones are violations)
        obs["err"] = type(e).__name__
        return obs
    if with_float:
        try:
            rf = Alg(exp).distribute_power(float(p), build(case, float))
            worst = F(0)
            for k, v in res.distribution.items():
                worst = max(worst, abs(F(rf.distribution[k]) - X(v).q))
            worst = max(worst, abs(F(rf.remaining_power) - X(res.remaining_power).q))
            obs["float"] = "agrees" if worst <= TOL * (1 + abs(p)) else "differs"
        except Exception as e:  # noqa: BLE001  (supporting evidence only)
            obs["float"] = "error:" + type(e).__name__
    return obs


def run_float(case):
    """float-only run (non-integer exponents): observation as floats rounded into rationals"""
    _, Alg, _ = _alg()
    obs = {"err": None, "dist": None, "rem": None, "labels": []}
    try:
        res, labels = traced(lambda: Alg(case["exp"]).distribute_power(float(fr(case["power"])), build(case, float)))
        obs["labels"] = labels
        obs["dist"] = sorted([int(k), js(F(v).limit_denominator(10 ** 9))] for k, v in res.distribution.items())
        obs["rem"] = js(F(res.remaining_power).limit_denominator(10 ** 9))
    except Exception as e:  # noqa: BLE001
        obs["err"] = type(e).__name__
    return obs


# ----------------------------------------------------------------------------- independent bookkeeping (oracle side)
def agg(g):
    """documented aggregates of a battery group (AggregatedBatteryData docstring)"""
    bs = g["bats"]
    cap = sum(fr(b["cap"]) for b in bs)
    w = lambda k: sum(fr(b[k]) * fr(b["cap"]) for b in bs) / cap if cap != 0 else None
    n = len(bs)
    return {"cap": cap, "soc": w("soc"), "lo": w("lo"), "hi": w("hi"),
            "il": sum(fr(b["il"]) for b in bs), "iu": sum(fr(b["iu"]) for b in bs),
            "el": min(fr(b["el"]) for b in bs) * n, "eu": max(fr(b["eu"]) for b in bs) * n}


def advertised(case):
    """(excl_lower, excl_upper) the pool advertises (PowerBoundsCalculator): per group the
    larger of the battery exclusion bound and the summed inverter exclusion bounds, summed."""
    lo = hi = F(0)
    for g in case["groups"]:
        a = agg(g)
        lo += min(a["el"], sum(fr(i["el"]) for i in g["invs"]))
        hi += max(a["eu"], sum(fr(i["eu"]) for i in g["invs"]))
    return lo, hi


def enforced_excl(case):
    """(excl_lower, excl_upper) BatteryManager._get_bounds/_check_request ENFORCE: the larger of the summed battery
    exclusion bounds and the summed inverter exclusion bounds (over the whole request, not per group)"""
    aggs = [agg(g) for g in case["groups"]]
    invs = [i for g in case["groups"] for i in g["invs"]]
    return (min(sum(a["el"] for a in aggs), sum(fr(i["el"]) for i in invs)),
            max(sum(a["eu"] for a in aggs), sum(fr(i["eu"]) for i in invs)))


def in_enforced_advertised_band(case) -> bool:
    """the request passes the enforced exclusion bound but lies inside the advertised exclusion zone:
    outside C01/C02's domain, kept in the correspondence stream on purpose"""
    p = fr(case["power"])
    elo, ehi = enforced_excl(case)
    alo, ahi = advertised(case)
    return (p > 0 and ehi <= p < ahi) or (p < 0 and alo < p <= elo)


def group_dir(g, supply):
    """(min_power, incl_bound, battery excl, battery incl, [(id, excl, incl)]) in the request's direction, as magnitudes"""
    a = agg(g)
    if supply:
        bex, bin_ = -a["el"], -a["il"]
        invs = [(i["id"], -fr(i["el"]), -max(fr(i["il"]), a["il"])) for i in g["invs"]]
    else:
        bex, bin_ = a["eu"], a["iu"]
        invs = [(i["id"], fr(i["eu"]), min(fr(i["iu"]), a["iu"])) for i in g["invs"]]
    m = max(bex, min(e for _, e, _ in invs))
    u = min(sum(c for _, _, c in invs), bin_)
    return m, u, bex, bin_, invs


def in_domain(case) -> bool:
    p = fr(case["power"])
    if abs(p) <= ZERO_TOL:
        return False
    if case["exp"] < 0:
        return False
    ids = []
    for g in case["groups"]:
        if not g["bats"] or not g["invs"]:
            return False
        for c in g["bats"] + g["invs"]:
            ids.append(c["id"])
            if not (fr(c["il"]) <= fr(c["el"]) <= 0 <= fr(c["eu"]) <= fr(c["iu"])):
                return False
        if any(fr(b["cap"]) <= 0 for b in g["bats"]):
            return False
        for supply in (False, True):
            m, u, *_ = group_dir(g, supply)
            if m > u:
                return False
    if len(ids) != len(set(ids)):
        return False
    # the code treats a total capacity <= 1e-9 as "all batteries have capacity 0" (ValueError)
    if sum(fr(b["cap"]) for g in case["groups"] for b in g["bats"]) <= ZERO_TOL:
        return False
    lo, hi = advertised(case)
    return p >= hi if p > 0 else p <= lo


def headroom(g, supply):
    a = agg(g)
    return (a["soc"] - a["lo"]) if supply else (a["hi"] - a["soc"])


def clauses(case, obs):
    """The clauses of C01 and C02 judged on the implementation's output.
    Returns list of (clause id, group index or None, text)."""
    out = []
    if not in_domain(case):
        return out
    if obs["err"] is not None:
        # every in-domain request must be distributed: an exception means no set-points and no remainder at all
        text = f"distribute_power raised {obs['err']} on an in-domain request"
        return [("C01_error", None, text), ("C02_error", None, text)]
    p = fr(case["power"])
    sg = 1 if p > 0 else -1
    dist = {k: fr(v) for k, v in obs["dist"]}
    rem = fr(obs["rem"])
    tot = sum(dist.values()) + rem
    if abs(tot - p) > TOL:
        out.append(("C01_sum", None, f"set-points {sum(dist.values())} + remainder {rem} = {tot} != request {p}"))
    for k, v in sorted(dist.items()):
        if v * sg < -TOL:
            out.append(("C01_sign", None, f"inverter {k} set-point {v} has the opposite sign of the request {p}"))
    if rem * sg < -TOL or abs(rem) > abs(p) + TOL:
        out.append(("C01_remainder", None, f"remainder {rem} for request {p}"))
    if "distributed" in obs and obs["distributed"] is not None:
        if abs(fr(obs["distributed"]) - sum(dist.values())) > TOL:
            out.append(("C01_reported", None, f"power reported as set {fr(obs['distributed'])} != commanded {sum(dist.values())}"))
    for gi, g in enumerate(case["groups"]):
        a = agg(g)
        gt = F(0)
        for i in g["invs"]:
            v = dist[i["id"]]
            gt += v
            if abs(v) > TOL:
                if not (fr(i["il"]) - TOL <= v <= fr(i["iu"]) + TOL):
                    out.append(("C02_inverter", gi, f"inverter {i['id']} set-point {v} outside inclusion [{fr(i['il'])}, {fr(i['iu'])}]"))
                elif fr(i["el"]) + TOL < v < fr(i["eu"]) - TOL:
                    out.append(("C02_inverter", gi, f"inverter {i['id']} set-point {v} inside exclusion zone ({fr(i['el'])}, {fr(i['eu'])})"))
        if abs(gt) > TOL:
            if not (a["il"] - TOL <= gt <= a["iu"] + TOL):
                out.append(("C02_group_incl", gi, f"group {gi} total {gt} outside battery inclusion [{a['il']}, {a['iu']}]"))
            elif a["el"] + TOL < gt < a["eu"] - TOL:
                out.append(("C02_group_excl", gi, f"group {gi} total {gt} inside battery exclusion zone ({a['el']}, {a['eu']})"))
            if headroom(g, p < 0) <= 0:
                # exponent 0 is documented as "equal shares regardless of SoC" (pow(0, 0) = 1): finding F4,
                # reported under its own clause name so that C02_no_headroom carries `exponent > 0`
                cl = "C02_no_headroom" if case["exp"] > 0 else "F4_exponent0_full_battery_share"
                out.append((cl, gi, f"group {gi} has no SoC headroom (exponent {case['exp']}) but is assigned {gt}"))
    return out


# ----------------------------------------------------------------------------- generation
CAPS = [1, 2, 5, 10, 10, 100]
EXCL = [0, 0, 0, 10, 25, 50, 100]
WIDTH = [0, 5, 50, 50, 200, 200, 1000]
SOC_LO = [0, 10, 20]
SOC_HI = [80, 90, 100]


def _bounds(rng, zero_incl=0.04):
    eu = rng.choice(EXCL)
    iu = eu + rng.choice(WIDTH)
    el = -rng.choice(EXCL)
    il = el - rng.choice(WIDTH)
    if rng.random() < 0.35:      # symmetric components are the common case
        el, il = -eu, -iu
    if rng.random() < zero_incl:
        eu, iu = 0, 0
    if rng.random() < zero_incl:
        el, il = 0, 0
    return il, el, eu, iu


def gen_groups(rng, ngroups=None):
    n = ngroups or rng.choice([1, 2, 2, 3, 3, 4])
    groups, cid = [], rng.choice([1, 1, 5, 100])
    full_bias = rng.random()
    for _ in range(n):
        k = rng.choice([1, 1, 1, 2, 3])
        m = rng.choice([1, 1, 1, 2, 2, 3])
        bats, invs = [], []
        ids = list(range(cid, cid + k + m))
        cid += k + m
        if rng.random() < 0.3:
            rng.shuffle(ids)
        lo, hi = rng.choice(SOC_LO), rng.choice(SOC_HI)
        for j in range(k):
            il, el, eu, iu = _bounds(rng, 0.02)
            if rng.random() < 0.2:
                lo, hi = rng.choice(SOC_LO), rng.choice(SOC_HI)
            r = rng.random()
            if full_bias < 0.25 and r < 0.5:
                soc = rng.choice([hi, hi, hi + 5, lo, lo - 5])
            else:
                soc = rng.choice([lo - 5, lo, lo + 1, 30, 50, 50, F(101, 2), 60, 70, hi - 1, hi, hi + 5])
            bats.append({"id": ids[j], "cap": js(rng.choice(CAPS)), "soc": js(soc), "lo": lo, "hi": hi,
                         "il": il, "el": el, "eu": eu, "iu": iu})
        for j in range(m):
            il, el, eu, iu = _bounds(rng, 0.05)
            invs.append({"id": ids[k + j], "il": il, "el": el, "eu": eu, "iu": iu})
        if rng.random() < 0.15 and len(groups) > 0:   # equal sort keys: clone the previous group's data
            prev = groups[-1]
            bats = [{**b, "id": ids[j]} for j, b in enumerate(prev["bats"][:k])]
            invs = [{**i, "id": ids[len(bats) + j]} for j, i in enumerate(prev["invs"][:m])]
        g = {"bats": bats, "invs": invs}
        if rng.random() < 0.9:
            g = make_consistent(g)
        groups.append(g)
    return groups


def make_consistent(g):
    """widen the inclusion bounds until the group's minimum power fits under its inclusion bound
    (the domain condition of C01/C02) in both directions"""
    g = {"bats": [dict(b) for b in g["bats"]], "invs": [dict(i) for i in g["invs"]]}
    for supply, key, sign in ((False, "iu", 1), (True, "il", -1)):
        m, u, *_ = group_dir(g, supply)
        if m > u:
            d = m - u
            for c in g["bats"] + g["invs"]:
                c[key] = js(fr(c[key]) + sign * d)
    return g


def requests_for(case_groups):
    """boundary and interior requests for both directions"""
    c = {"groups": case_groups}
    lo, hi = advertised(c)
    iu = sum(group_dir(g, False)[1] for g in case_groups)
    il = -sum(group_dir(g, True)[1] for g in case_groups)
    out = []
    elo, ehi = enforced_excl(c)
    if ehi < hi:      # band between the enforced and the advertised exclusion bound (not admitted; model fidelity)
        out += [ehi, (ehi + hi) / 2]
    if lo < elo:
        out += [elo, (elo + lo) / 2]
    if hi <= iu and iu > 0:
        out += [hi, iu, (hi + iu) / 2, (2 * hi + iu) / 3, hi + 1, iu + 50, iu + F(1, 3), max(iu - 1, hi)]
    else:
        out += [hi, hi + 7]
    if il <= lo and il < 0:
        out += [lo, il, (lo + il) / 2, (2 * lo + il) / 3, lo - 1, il - 50, il - F(1, 3), min(il + 1, lo)]
    else:
        out += [lo, lo - 7]
    return [x for x in out if abs(x) > TOL]


def gen_case(rng, exps=(1, 1, 1, 1, 0, 2, 3)):
    groups = gen_groups(rng)
    reqs = requests_for(groups)
    r = rng.random()
    if r < 0.85 and reqs:
        p = rng.choice(reqs)
    elif r < 0.93:
        p = F(rng.choice([-1510, -300, -90, -11, 11, 75, 100, 150, 400, 1234]))   # possibly not admitted
    else:
        p = F(rng.randrange(-4000, 4000), rng.choice([1, 2, 3, 7]))
        if abs(p) <= TOL:
            p = F(1)
    return {"groups": groups, "power": js(p), "exp": rng.choice(exps)}


def boundary_cases():
    """hand-written corners incl. the minimal witnesses of the defects found on the unchanged tree"""
    B = lambda i, cap, soc, lo, hi, il, el, eu, iu: {"id": i, "cap": cap, "soc": soc, "lo": lo, "hi": hi, "il": il, "el": el, "eu": eu, "iu": iu}
    I = lambda i, il, el, eu, iu: {"id": i, "il": il, "el": el, "eu": eu, "iu": iu}
    out = []
    # F1: uncovered deficit, 1 W vanishes (10 + 0, remainder 0 for a request of 11)
    out.append({"groups": [{"bats": [B(1, 10, 50, 0, 100, -200, -10, 10, 200)], "invs": [I(2, -200, 0, 0, 200)]},
                           {"bats": [B(3, 10, 50, 0, 100, -200, 0, 0, 200)], "invs": [I(4, 0, 0, 0, 0)]}],
                "power": 11, "exp": 1})
    # F2: two inverters, split leftover (75 -> 50 + 0 before the fix)
    out.append({"groups": [{"bats": [B(1, 10, 50, 0, 100, -200, 0, 0, 200)],
                            "invs": [I(2, -50, 0, 0, 50), I(3, -100, -50, 50, 100)]}], "power": 75, "exp": 1})
    # F3: a full group with a non-zero exclusion bound next to a usable one
    out.append({"groups": [{"bats": [B(1, 10, 100, 0, 100, -200, -50, 50, 200)], "invs": [I(2, -200, 0, 0, 200)]},
                           {"bats": [B(3, 10, 50, 0, 100, -200, 0, 0, 200)], "invs": [I(4, -200, 0, 0, 200)]}],
                "power": 100, "exp": 1})
    out.append({**out[-1], "power": -100})
    # everything full / empty
    out.append({"groups": [{"bats": [B(1, 10, 100, 0, 100, -200, -50, 50, 200)], "invs": [I(2, -200, 0, 0, 200)]}], "power": 60, "exp": 1})
    # exponent 0 with a full battery (F4, documented behaviour)
    out.append({**out[2], "exp": 0})
    # request beyond the inclusion bound
    out.append({"groups": [{"bats": [B(1, 10, 50, 0, 100, -200, 0, 0, 200)], "invs": [I(2, -100, 0, 0, 100)]}], "power": 250, "exp": 1})
    # tiny request (treated as zero by the code)
    out.append({**out[-1], "power": [1, 10 ** 10]})
    # between the enforced exclusion bound max(sum bat, sum inv) = 10 and the advertised one sum max(bat, sum inv) = 20:
    # the minimum powers (10 + 10) exceed the request (outside the property's domain; correspondence only)
    band = [{"bats": [B(1, 10, 50, 0, 100, -200, -10, 10, 200)], "invs": [I(2, -200, 0, 0, 200)]},
            {"bats": [B(3, 10, 50, 0, 100, -200, 0, 0, 200)], "invs": [I(4, -200, -10, 10, 200)]}]
    for pw in (10, 15, -10, -15, 20):
        out.append({"groups": band, "power": pw, "exp": 1})
    # total capacity below the code's zero tolerance: ValueError
    out.append({"groups": [{"bats": [B(1, [1, 10 ** 10], 50, 0, 100, -200, 0, 0, 200)], "invs": [I(2, -100, 0, 0, 100)]}], "power": 50, "exp": 1})
    return out


def shrink_case(case):
    gs = case["groups"]
    if len(gs) > 1:
        for i in range(len(gs)):
            yield {**case, "groups": gs[:i] + gs[i + 1:]}
    for gi, g in enumerate(gs):
        if len(g["bats"]) > 1:
            for j in range(len(g["bats"])):
                yield {**case, "groups": gs[:gi] + [{**g, "bats": g["bats"][:j] + g["bats"][j + 1:]}] + gs[gi + 1:]}
        if len(g["invs"]) > 1:
            for j in range(len(g["invs"])):
                yield {**case, "groups": gs[:gi] + [{**g, "invs": g["invs"][:j] + g["invs"][j + 1:]}] + gs[gi + 1:]}
    if case["exp"] != 1:
        yield {**case, "exp": 1}
    p = fr(case["power"])
    if p.denominator != 1:
        yield {**case, "power": js(F(round(p)))}
    for gi, g in enumerate(gs):
        for kind in ("bats", "invs"):
            for j, c in enumerate(g[kind]):
                for fld, simple in (("el", 0), ("eu", 0), ("cap", 10), ("soc", 50), ("lo", 0), ("hi", 100)):
                    if fld in c and fr(c[fld]) != simple:
                        c2 = {**c, fld: simple}
                        g2 = {**g, kind: g[kind][:j] + [c2] + g[kind][j + 1:]}
                        yield {**case, "groups": gs[:gi] + [g2] + gs[gi + 1:]}


# ----------------------------------------------------------------------------- Coq rendering
def c_bat(b):
    return "(mkBat " + " ".join(cQ(b[k]) for k in BAT_F) + ")"


def c_inv(i):
    return f"(mkInv {cZ(i['id'])} " + " ".join(cQ(i[k]) for k in INV_F) + ")"


def c_group(g):
    return ("(mkGrp [" + "; ".join(c_bat(b) for b in g["bats"]) + "] ["
            + "; ".join(c_inv(i) for i in g["invs"]) + "])")


def c_groups(case):
    return "[" + "; ".join(c_group(g) for g in case["groups"]) + "]"


HEADER = """From Verif Require Import model.Dist.
Open Scope Q_scope.
(* case: groups, integer exponent, request,
   expected outcome: None = ValueError, Some (set-points sorted by inverter id, remainder, distributed) *)
Definition check (c : list group * nat * Q * option (list (Z * Q) * Q * Q)) : bool :=
  let '(gs, e, p, exp) := c in
  match run_request (fun x => Qpower x (Z.of_nat e)) gs p, exp with
  | None, None => true
  | Some r, Some (d, rem, dd) =>
      list_eqb (fun a b => Z.eqb (fst a) (fst b) && Qeq_bool (snd a) (snd b)) (sort_by_id (res_dist (rr_res r))) d
      && Qeq_bool (res_rem (rr_res r)) rem && Qeq_bool (res_distributed r) dd
  | _, _ => false
  end.
"""


def case_term(case, obs):
    if obs["err"] is not None:
        exp = "None"
    else:
        d = "[" + "; ".join(f"(({cZ(k)})%Z, {cQ(v)})" for k, v in obs["dist"]) + "]"
        exp = f"(Some ({d}, {cQ(obs['rem'])}, {cQ(obs['distributed'])}))"
    return f"({c_groups(case)}, {int(case['exp'])}%nat, {cQ(case['power'])}, {exp})"


def show_term(case):
    return (f"match run_request (fun x => Qpower x (Z.of_nat {int(case['exp'])}%nat)) {c_groups(case)} {cQ(case['power'])} with "
            f"Some r => Some (map (fun a => (fst a, Qred (snd a))) (sort_by_id (res_dist (rr_res r))), Qred (res_rem (rr_res r)), res_trace (rr_res r)) | None => None end")


# ----------------------------------------------------------------------------- streams
class DistStream(Stream):
    """exact run vs Q model; oracle clauses selected by `CLAUSES` (set by c01.py / c02.py)"""
    name = "exact"
    coq_header = HEADER
    n_quick = 1500
    n_thorough = 30000
    CLAUSES: tuple = ()
    FINDING_OF = staticmethod(lambda case, obs, clause, gi: None)

    def gen(self, rng, tier):
        yield from boundary_cases()
        n = self.n_quick if tier == "quick" else self.n_thorough
        for _ in range(n):
            yield gen_case(rng)

    def run_impl(self, case):
        return run_impl(case)

    def to_coq(self, case, obs):
        return case_term(case, obs)

    def show_term(self, case, obs):
        return show_term(case)

    def shrink(self, case):
        return shrink_case(case)

    def oracle(self, case, obs):
        out = []
        for cl, gi, text in clauses(case, obs):
            if cl.startswith(self.CLAUSES):
                out.append({"what": f"{cl}: {text}", "finding": self.FINDING_OF(case, obs, cl, gi)})
        return out

    def key(self, case, obs):
        if obs["err"] is not None or not obs["dist"] or all(fr(v) == 0 for _, v in obs["dist"]):
            return None
        return json.dumps([obs["labels"], fr(case["power"]) > 0, len(case["groups"])]) + json.dumps(case, sort_keys=True)

    def labels(self, case, obs):
        out = [f"groups={len(case['groups'])}", f"exp={case['exp']}", "supply" if fr(case["power"]) < 0 else "consume"]
        out.append("in_domain" if in_domain(case) else "outside_domain")
        if in_enforced_advertised_band(case):
            out.append("request_between_enforced_and_advertised_excl")
            if obs["rem"] is not None and fr(obs["rem"]) * fr(case["power"]) < 0:
                out.append("band:remainder_with_opposite_sign")
        out += [f"branch:{lb}" for lb in obs.get("labels", [])]
        if obs["err"]:
            out.append("error:" + obs["err"])
        if obs.get("float"):
            out.append("float_run_" + obs["float"])
        if obs["rem"] is not None and fr(obs["rem"]) != 0:
            out.append("nonzero_remainder")
        if any(len(g["invs"]) > 1 for g in case["groups"]):
            out.append("has_multi_inverter_group")
        if any(len(g["bats"]) > 1 for g in case["groups"]):
            out.append("has_multi_battery_group")
        if obs["err"] is None and any(headroom(g, fr(case["power"]) < 0) <= 0 for g in case["groups"]):
            out.append("has_group_without_headroom")
        return out


class FloatStream(DistStream):
    """ordinary floats incl. non-integer exponents: oracle only (no model twin)"""
    name = "float"
    n_quick = 1500
    n_thorough = 30000

    def gen(self, rng, tier):
        n = self.n_quick if tier == "quick" else self.n_thorough
        for _ in range(n):
            yield gen_case(rng, exps=(0.5, 1.5, 1, 2, 0, 0.25))

    def run_impl(self, case):
        return run_float(case)

    def to_coq(self, case, obs):
        return None

    def labels(self, case, obs):
        band = ["request_between_enforced_and_advertised_excl"] if in_enforced_advertised_band(case) else []
        return [f"exp={case['exp']}", "in_domain" if in_domain(case) else "outside_domain"] + band + [f"branch:{lb}" for lb in obs.get("labels", [])]


# ----------------------------------------------------------------------------- the same objects reused across calls
# One list of InvBatPair (AggregatedBatteryData + inverter records) and one algorithm instance serve a SEQUENCE of
# distribute_power calls; between the calls the objects are mutated IN PLACE (soc, soc limits, capacity, power bounds,
# inverter bounds).  Every call is judged against, and compared with the model on, the CURRENT field values.
AGG_FIELDS = {"soc": "soc", "cap": "capacity", "lo": "soc_lower_bound", "hi": "soc_upper_bound"}
PB_FIELDS = {"il": "inclusion_lower", "el": "exclusion_lower", "eu": "exclusion_upper", "iu": "inclusion_upper"}
INV_FIELDS = {"il": "active_power_inclusion_lower_bound", "el": "active_power_exclusion_lower_bound",
              "eu": "active_power_exclusion_upper_bound", "iu": "active_power_inclusion_upper_bound"}


def equiv_groups(groups):
    """one-battery groups carrying the aggregated values (AggregatedBatteryData's fields)"""
    out = []
    for g in groups:
        a = agg(g)
        out.append({"bats": [{"id": g["bats"][0]["id"], **{k: js(a[k]) for k in BAT_F}}], "invs": [dict(i) for i in g["invs"]]})
    return out


def reuse_states(case):
    """current (aggregated) field values before every call: list of (groups, call)"""
    cur = equiv_groups(case["groups"])
    out = []
    for call in case["calls"]:
        cur = [{"bats": [dict(g["bats"][0])], "invs": [dict(i) for i in g["invs"]]} for g in cur]
        for m in call["mut"]:
            if m[1] == "inv":
                cur[m[0]]["invs"][m[2]][m[3]] = m[4]
            else:
                cur[m[0]]["bats"][0][m[1]] = m[2]
        out.append((cur, call))
    return out


def run_reuse(case):
    _, Alg, _ = _alg()
    pairs = build(case, X)
    alg = Alg(case["exp"])
    obs = []
    for groups, call in reuse_states(case):
        for m in call["mut"]:
            pair = pairs[m[0]]
            if m[1] == "inv":
                setattr(pair.inverter[m[2]], INV_FIELDS[m[3]], X(fr(m[4])))
            elif m[1] in AGG_FIELDS:
                setattr(pair.battery, AGG_FIELDS[m[1]], X(fr(m[2])))
            else:
                setattr(pair.battery.power_bounds, PB_FIELDS[m[1]], X(fr(m[2])))
        p = fr(call["power"])
        o = {"err": None, "dist": None, "rem": None, "distributed": None, "labels": [], "float": None}
        try:
            res = alg.distribute_power(X(p), pairs)
            o["dist"] = sorted([int(k), js(v)] for k, v in res.distribution.items())
            o["rem"] = js(res.remaining_power)
            o["distributed"] = js(X(p) - res.remaining_power)
        except Exception as e:  # noqa: BLE001
            o["err"] = type(e).__name__
        obs.append(o)
    return {"calls": obs}


def gen_reuse_case(rng):
    groups = gen_groups(rng, ngroups=rng.choice([1, 2, 2, 3]))
    exp = rng.choice([1, 1, 1, 2, 3])
    cur = equiv_groups(groups)
    calls = []
    for k in range(rng.choice([2, 3, 3, 4])):
        mut = []
        if k > 0:
            for gi, g in enumerate(cur):
                b = g["bats"][0]
                r = rng.random()
                if r < 0.55:       # SoC moves, often onto / beyond a limit
                    mut.append([gi, "soc", js(rng.choice([fr(b["hi"]), fr(b["hi"]) + 5, fr(b["lo"]), fr(b["lo"]) - 5,
                                                          (fr(b["hi"]) + fr(b["lo"])) / 2, fr(b["soc"]) + 1]))])
                elif r < 0.65:
                    mut.append([gi, "cap", js(fr(b["cap"]) * rng.choice([2, 3, F(1, 2)]))])
                elif r < 0.75:
                    mut.append([gi, rng.choice(["hi", "lo"]), js(rng.choice([fr(b["soc"]), 50, 95, 5]))])
                elif r < 0.85:     # wider inclusion bounds (keeps the group consistent)
                    mut.append([gi, "iu", js(fr(b["iu"]) * 2 + 10)])
                    mut.append([gi, "il", js(fr(b["il"]) * 2 - 10)])
                elif r < 0.95 and g["invs"]:
                    j = rng.randrange(len(g["invs"]))
                    mut.append([gi, "inv", j, "iu", js(fr(g["invs"][j]["iu"]) * 2 + 10)])
                    mut.append([gi, "inv", j, "il", js(fr(g["invs"][j]["il"]) * 2 - 10)])
            for m in mut:
                if m[1] == "inv":
                    cur[m[0]]["invs"][m[2]][m[3]] = m[4]
                else:
                    cur[m[0]]["bats"][0][m[1]] = m[2]
        reqs = requests_for(cur)
        p = rng.choice(reqs) if reqs and rng.random() < 0.9 else F(rng.choice([-300, -90, 75, 400]))
        calls.append({"power": js(p), "mut": mut})
    return {"groups": groups, "exp": exp, "calls": calls}


def reuse_boundary_cases():
    B = lambda i, cap, soc, lo, hi, il, el, eu, iu: {"id": i, "cap": cap, "soc": soc, "lo": lo, "hi": hi, "il": il, "el": el, "eu": eu, "iu": iu}
    I = lambda i, il, el, eu, iu: {"id": i, "il": il, "el": el, "eu": eu, "iu": iu}
    gs = [{"bats": [B(1, 10, 50, 10, 90, -500, 0, 0, 500)], "invs": [I(2, -500, 0, 0, 500)]},
          {"bats": [B(3, 10, 50, 10, 90, -500, 0, 0, 500)], "invs": [I(4, -500, 0, 0, 500)]}]
    return [{"groups": gs, "exp": 1, "calls": [{"power": 400, "mut": []}, {"power": 400, "mut": [[0, "soc", 90]]},
                                                {"power": -400, "mut": [[1, "soc", 10]]}, {"power": 400, "mut": [[0, "soc", 50], [1, "soc", 95]]}]}]


REUSE_HEADER = HEADER.replace("Definition check (c :", "Definition check1 (c :") + (
    "Definition check (c : list (list group * nat * Q * option (list (Z * Q) * Q * Q))) : bool := forallb check1 c.\n")


class ReuseStream(Stream):
    """sequence of distribute_power calls on ONE list of InvBatPair mutated in place between the calls"""
    name = "reuse"
    coq_header = REUSE_HEADER
    n_quick = 180
    n_thorough = 6000
    CLAUSES: tuple = ()
    FINDING_OF = staticmethod(lambda case, obs, clause, gi: None)

    def gen(self, rng, tier):
        yield from reuse_boundary_cases()
        for _ in range(self.n_quick if tier == "quick" else self.n_thorough):
            yield gen_reuse_case(rng)

    def run_impl(self, case):
        return run_reuse(case)

    def _items(self, case, obs):
        for (groups, call), o in zip(reuse_states(case), obs["calls"]):
            yield {"groups": groups, "power": call["power"], "exp": case["exp"]}, o

    def to_coq(self, case, obs):
        return "[" + "; ".join(case_term(c, o) for c, o in self._items(case, obs)) + "]"

    def show_term(self, case, obs):
        return "[" + "; ".join(show_term(c) for c, _ in self._items(case, obs)) + "]"

    def oracle(self, case, obs):
        out = []
        for k, (c, o) in enumerate(self._items(case, obs)):
            for cl, gi, text in clauses(c, o):
                if cl.startswith(self.CLAUSES):
                    out.append({"what": f"{cl}: call {k} on reused objects (current values): {text}", "finding": self.FINDING_OF(c, o, cl, gi)})
        return out

    def shrink(self, case):
        calls = case["calls"]
        if len(calls) > 1:
            # drop a call but keep its mutations (merge them into the next call)
            for k in range(len(calls) - 1):
                nxt = {**calls[k + 1], "mut": calls[k]["mut"] + calls[k + 1]["mut"]}
                yield {**case, "calls": calls[:k] + [nxt] + calls[k + 2:]}
            yield {**case, "calls": calls[:-1]}
        for k, c in enumerate(calls):
            for j in range(len(c["mut"])):
                yield {**case, "calls": calls[:k] + [{**c, "mut": c["mut"][:j] + c["mut"][j + 1:]}] + calls[k + 1:]}

    def key(self, case, obs):
        if not any(o["dist"] and any(fr(v) != 0 for _, v in o["dist"]) for o in obs["calls"]):
            return None
        return json.dumps(case, sort_keys=True)

    def labels(self, case, obs):
        out = [f"calls={len(case['calls'])}"]
        for c in case["calls"]:
            for m in c["mut"]:
                out.append("mutated:" + ("inverter_" + m[3] if m[1] == "inv" else m[1]))
        for (c, o) in self._items(case, obs):
            out.append("in_domain" if in_domain(c) else "outside_domain")
            if o["err"] is None and any(headroom(g, fr(c["power"]) < 0) <= 0 for g in c["groups"]):
                out.append("call_with_group_without_headroom")
        return out
