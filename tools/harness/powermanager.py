"""C11: drive the real PowerManagingActor (one component group) on async_solipsism virtual
time through its real channels; only the creation of the pool that feeds the bounds tracker
is replaced (the tracker task itself, the select loop, both Matryoshka instances, request
and report sending are the real code).  Time unit of cases: 1/8 s; of the model: microseconds."""
from __future__ import annotations

import asyncio
import json
from datetime import datetime, timedelta, timezone
from fractions import Fraction

import async_solipsism

from lib.core import Stream, cZ, copt
from harness import matryoshka as M

IDS = frozenset({1})
Q_REG, Q_OP = 1, 2
UNIT = 1000000
QUIESCE = 0.001


def _mk_actor_cls():
    from frequenz.sdk.microgrid._power_managing._power_managing_actor import PowerManagingActor
    from frequenz.sdk.timeseries._base_types import SystemBounds
    from frequenz.sdk._internal._asyncio import run_forever

    class PM(PowerManagingActor):
        def _add_system_bounds_tracker(self, component_ids):  # harness stub: no battery pool
            self._system_bounds[component_ids] = SystemBounds(
                timestamp=datetime.now(tz=timezone.utc), inclusion_bounds=None, exclusion_bounds=None)
            rx = self._verif_bounds.new_receiver(limit=1000)
            self._bound_tracker_tasks[component_ids] = asyncio.create_task(
                run_forever(lambda: self._bounds_tracker(component_ids, rx)))
    return PM


async def _drive(case):
    from frequenz.channels import Broadcast
    from frequenz.client.microgrid import ComponentCategory
    from frequenz.quantities import Power
    from frequenz.sdk._internal._channels import ChannelRegistry
    from frequenz.sdk.microgrid import _power_distributing as pd
    from frequenz.sdk.microgrid._power_managing._base_classes import Proposal, ReportRequest, _Report
    from frequenz.sdk.timeseries._base_types import Bounds, SystemBounds

    base_ts = datetime.now(tz=timezone.utc)
    M.set_scale(case)
    W = lambda x: Power.from_watts(x * M.SCALE)
    loop = asyncio.get_running_loop()
    proposals, subs, reqs, results, boundsch = (Broadcast(name=n) for n in "psrxb")
    registry = ChannelRegistry(name="verif")
    req_rx = reqs.new_receiver(limit=1000)
    actor = _mk_actor_cls()(proposals.new_receiver(limit=1000), subs.new_receiver(limit=1000), reqs.new_sender(),
                            results.new_receiver(limit=1000), registry, component_category=ComponentCategory.BATTERY)
    actor._verif_bounds = boundsch
    log = []
    ticks = []
    orig_drop = actor._set_power_group.drop_old_proposals

    def rec_drop(now):
        ticks.append(now)
        return orig_drop(now)
    actor._set_power_group.drop_old_proposals = rec_drop
    actor.start()
    rep_rx = {}
    for op, q in ((False, case.get("q_reg", Q_REG)), (True, case.get("q_op", Q_OP))):
        rr = ReportRequest(source_id=f"sub{q}", component_ids=IDS, priority=q, set_operating_point=op)
        rep_rx[op] = registry.get_or_create(_Report, rr.get_channel_name()).new_receiver(limit=1000)
        await subs.new_sender().send(rr)
    await asyncio.sleep(QUIESCE)
    psend, rsend, bsend = proposals.new_sender(), results.new_sender(), boundsch.new_sender()
    o = lambda x: None if x is None else W(x)
    last_req = None
    all_reqs: list = []

    req_buf: list = []
    rep_buf = {False: [], True: []}

    async def pump(rx, buf):
        async for msg in rx:
            buf.append(msg)
    pumps = [asyncio.create_task(pump(req_rx, req_buf)), asyncio.create_task(pump(rep_rx[False], rep_buf[False])),
             asyncio.create_task(pump(rep_rx[True], rep_buf[True]))]

    async def collect(tag):
        nonlocal last_req
        await asyncio.sleep(QUIESCE)
        for now in ticks:
            log.append({"e": "tick", "now": _units(now), "request": None, "report": None})
        ticks.clear()
        rq = list(req_buf)
        req_buf.clear()
        reps = {op: list(rep_buf[op]) for op in (False, True)}
        rep_buf[False].clear()
        rep_buf[True].clear()
        entry = {"e": tag, "request": None, "report": None, "n_requests": len(rq),
                 "n_reports": [len(reps[False]), len(reps[True])]}
        if rq:
            entry["request"] = M.watts(rq[-1].power)
            entry["adjust_power"] = rq[-1].adjust_power
            last_req = rq[-1]
            all_reqs.extend(rq)
        if reps[False] and reps[True]:
            rr_, ro_ = reps[False][-1], reps[True][-1]
            b = lambda r: None if r.bounds is None else [M.watts(r.bounds.lower), M.watts(r.bounds.upper)]
            entry["report"] = {"reg_target": M.watts(rr_.target_power), "op_target": M.watts(ro_.target_power),
                               "reg_bounds": b(rr_), "op_bounds": b(ro_)}
        log.append(entry)

    for i, e in enumerate(case["events"]):
        if e["t"] == "prop":
            await psend.send(Proposal(source_id=e["src"], preferred_power=o(e["pref"]), bounds=Bounds(o(e["lo"]), o(e["hi"])),
                                      component_ids=IDS, priority=e["prio"], creation_time=loop.time(),
                                      set_operating_point=e["op"]))
            log.append({"e": "now", "i": i, "now": _units(loop.time())})
        elif e["t"] == "bounds":
            # the data timestamp of a bounds message is unrelated to the order of receipt:
            # later messages may carry earlier, equal or later timestamps
            sb = M.mk_sys(e["sys"])
            sb = SystemBounds(timestamp=base_ts + timedelta(seconds=e.get("ts", 0)),
                              inclusion_bounds=sb.inclusion_bounds, exclusion_bounds=sb.exclusion_bounds)
            await bsend.send(sb)
        elif e["t"] == "result":
            # a result may answer the latest request or an OLDER one (results are asynchronous)
            back = e.get("back", 0)
            req = (all_reqs[-1 - back] if len(all_reqs) > back else last_req) or pd.Request(power=W(0), component_ids=IDS)
            if e["k"] == 0:
                res = pd.Success(request=req, succeeded_power=req.power, succeeded_components=set(IDS), excess_power=W(0))
            elif e["k"] == 1:
                res = pd.PartialFailure(request=req, succeeded_power=W(0), succeeded_components=set(), excess_power=W(0),
                                        failed_power=req.power, failed_components=set(IDS))
            else:
                res = pd.Error(request=req, msg="verif")
            await rsend.send(res)
        elif e["t"] == "sleep":
            await asyncio.sleep(e["dt"] / 8.0)
        await collect(i)
    for t in pumps:
        t.cancel()
    await actor.stop()
    return log


def _units(t: float) -> int:
    return round(t * UNIT)


def run_actor(case):
    loop = async_solipsism.EventLoop()
    try:
        return loop.run_until_complete(_drive(case))
    finally:
        import gc
        gc.collect()  # let BackgroundService.__del__ run while the loop is still open
        loop.close()


# ----------------------------------------------------------------------------- Coq rendering
HEADER = """From Verif Require Import model.PowerManager.
Definition bnds_eqb (a b : option (Z * Z)) := opt_eqb (pair_eqb Z.eqb Z.eqb) a b.
Definition rep_eqb (a b : report) : bool :=
  optZ_eqb (r_reg_target a) (r_reg_target b) && optZ_eqb (r_op_target a) (r_op_target b) &&
  bnds_eqb (r_reg_bounds a) (r_reg_bounds b) && bnds_eqb (r_op_bounds a) (r_op_bounds b).
Definition ma_reg := max_proposal_age_us.
Definition ma_op := max_proposal_age_op_us.
Definition check (c : Z * Z * list pevent * list (option Z * option report)) : bool :=
  let '(q_reg, q_op, h, exp) := c in
  list_eqb (pair_eqb optZ_eqb (opt_eqb rep_eqb)) (prun ma_reg ma_op q_reg q_op pm_init h) exp.
"""


def model_events(case, log):
    """Interleave the injected events with the recorded timer ticks, in the order observed."""
    evs, exp = [], []
    srcs = sorted({e["src"] for e in case["events"] if e["t"] == "prop"})
    rank = {s: i for i, s in enumerate(srcs)}
    now_of = {x["i"]: x["now"] for x in log if x["e"] == "now"}
    # float subtraction at the exact expiry boundary is not modelled: skip such cases
    for x in log:
        if x["e"] == "tick" and any(abs((x["now"] - t) - 60 * UNIT) <= 2 for t in now_of.values()):
            return None, None
    for k, x in enumerate(log):
        if x["e"] == "now":
            continue
        if x["e"] == "tick":
            # consecutive timer ticks are coalesced into the last one (justified by the Coq lemma
            # expire_expire: expiring at n1 then at n2 >= n1 equals expiring at n2)
            if k + 1 < len(log) and log[k + 1]["e"] == "tick":
                continue
            evs.append(f"(PTick {cZ(x['now'])})")
            exp.append("(None, None)")
            continue
        e = case["events"][x["e"]]
        if e["t"] == "sleep":
            continue
        if e["t"] == "prop":
            evs.append(f"(PProp {'true' if e['op'] else 'false'} (mkP {cZ(e['prio'])} {cZ(rank[e['src']])} {copt(e['pref'])} "
                       f"{copt(e['lo'])} {copt(e['hi'])} {cZ(now_of[x['e']])}))")
        elif e["t"] == "bounds":
            evs.append(f"(PBounds {M.c_sys(e['sys'])})")
        else:
            evs.append(f"(PResult {cZ(e['k'])})")
        r = x["report"]
        if r is None:
            rep = "None"
        else:
            b = lambda v: "None" if v is None else f"(Some ({cZ(v[0])}, {cZ(v[1])}))"
            rep = f"(Some (mkR {copt(r['reg_target'])} {copt(r['op_target'])} {b(r['reg_bounds'])} {b(r['op_bounds'])}))"
        exp.append(f"({copt(x['request'])}, {rep})")
    return evs, exp


# ----------------------------------------------------------------------------- generation
def gen_case(rng, maxlen=14):
    evs = []
    # usually start with bounds so that proposals are not ignored
    if rng.random() < 0.9:
        evs.append({"t": "bounds", "sys": M.gen_sys(rng, allow_none=False)})
    nsrc = rng.randint(1, 3)
    for _ in range(rng.randint(1, maxlen)):
        r = rng.random()
        if r < 0.45:
            p = M.gen_prop(rng, nsrc, 0)
            evs.append({"t": "prop", "op": rng.random() < 0.45, "src": p["src"], "prio": p["prio"], "pref": p["pref"],
                        "lo": p["lo"], "hi": p["hi"]})
        elif r < 0.75:
            evs.append({"t": "bounds", "sys": M.gen_sys(rng, allow_none=rng.random() < 0.3),
                        "ts": rng.choice([-100, -5, -1, 0, 0, 1, 5, 100])})
        elif r < 0.88:
            evs.append({"t": "result", "k": rng.choice([0, 1, 1, 2]), "back": rng.choice([0, 0, 1, 2])})
        else:
            evs.append({"t": "sleep", "dt": rng.choice([1, 8, 80, 239, 240, 400, 479, 480, 481, 500])})
    # the priorities of the two report subscriptions: independent numbering per group, so they may coincide
    q = rng.choice([-2, 0, 1, 2, 3, 7])
    return M.gen_scale(rng, {"events": evs, "q_reg": q, "q_op": q if rng.random() < 0.4 else rng.choice([-2, 0, 1, 2, 3, 7])})


def boundary_cases():
    P = lambda op, src, prio, pref, lo=None, hi=None: {"t": "prop", "op": op, "src": src, "prio": prio, "pref": pref, "lo": lo, "hi": hi}
    B = lambda l, u, el=0, eu=0: {"t": "bounds", "sys": {"incl": [l, u], "excl": [el, eu]}}
    return [
        # F7 witness: only the op target changes after the bounds shrink
        {"events": [B(-100, 100), P(True, "op", 1, 70), P(False, "r", 1, 20), B(-100, 80), B(-100, 100), B(-100, 15)]},
        {"events": [B(-100, 100), P(False, "r", 1, 20), P(True, "op", 1, 70), B(-100, 60), {"t": "result", "k": 1}, {"t": "result", "k": 1},
                    {"t": "result", "k": 0}, {"t": "result", "k": 1}]},
        {"events": [P(False, "r", 1, 20), B(-100, 100), P(False, "r", 1, 20), {"t": "sleep", "dt": 481}, P(True, "op", 1, -30),
                    {"t": "sleep", "dt": 100}, B(-50, 50)]},
        {"events": [B(-100, 100, -10, 10), P(True, "op", 1, 5), P(False, "r", 1, -5), B(-100, 100, -30, 30), B(0, 0)]},
        # F24 witness: both subscriptions on the same priority
        {"events": [B(-100, 100), P(True, "op", 1, 70), P(False, "r", 1, 20)], "q_reg": 1, "q_op": 1},
    ]


def shrink_case(case):
    ev = case["events"]
    for i in range(len(ev)):
        yield {**case, "events": ev[:i] + ev[i + 1:]}
    for i, e in enumerate(ev):
        if e["t"] == "prop":
            for fld in ("pref", "lo", "hi"):
                if e[fld] is not None:
                    yield {**case, "events": ev[:i] + [{**e, fld: None}] + ev[i + 1:]}


class PMStream(Stream):
    name = "actor"
    coq_header = HEADER

    def gen(self, rng, tier):
        yield from boundary_cases()
        for _ in range(700 if tier == "quick" else 12000):
            yield gen_case(rng, 10 if rng.random() < 0.8 else 22)

    def run_impl(self, case):
        return run_actor(case)

    def to_coq(self, case, obs):
        evs, exp = model_events(case, obs)
        if evs is None:
            return None
        return f"({cZ(case.get('q_reg', Q_REG))}, {cZ(case.get('q_op', Q_OP))}, [{'; '.join(evs)}], [{'; '.join(exp)}])"

    def show_term(self, case, obs):
        evs, _ = model_events(case, obs)
        return f"prun ma_reg ma_op {cZ(case.get('q_reg', Q_REG))} {cZ(case.get('q_op', Q_OP))} pm_init [{'; '.join(evs)}]"

    def shrink(self, case):
        return shrink_case(case)

    def key(self, case, obs):
        reqs = [x["request"] for x in obs if x.get("request") is not None]
        if not reqs:
            return None
        return json.dumps(case, sort_keys=True)

    def labels(self, case, obs):
        out = [f"events={min(len(case['events']), 23)}"]
        if case.get("scale", 1) != 1:
            out.append("fractional_or_scaled_watts")
        out += sorted({"has_" + e["t"] + ("_op" if e.get("op") else "") for e in case["events"]})
        if any(x["e"] == "tick" for x in obs):
            out.append("timer_ticks")
        nreq = sum(1 for x in obs if x.get("request") is not None)
        out.append(f"requests={min(nreq, 10)}")
        for x in obs:
            r = x.get("report")
            if x.get("request") is not None and r and r["reg_target"] is not None and r["op_target"] is not None:
                out.append("request_with_both_groups")
                break
        return out

    def oracle(self, case, obs):
        out = []
        cur = None
        last = None
        for x in obs:
            if x["e"] in ("tick", "now"):
                continue
            e = case["events"][x["e"]]
            if e["t"] == "bounds":
                cur = e["sys"]
            # both subscriptions (regular and operating point) are served whenever reports go out
            if e["t"] in ("prop", "bounds", "result") and x.get("n_reports") and min(x["n_reports"]) == 0:
                out.append({"what": f"reports: after event {x['e']} ({e['t']}) the subscriptions received {x['n_reports']} reports "
                                    f"[regular, operating point]: one of them was not served", "finding": None})
            if x.get("n_reports") and max(x["n_reports"]) > 1 and e["t"] != "sleep":
                out.append({"what": f"reports: a subscription received {max(x['n_reports'])} reports for the single event {x['e']} (regular and operating-point report streams are mixed)", "finding": None})
            r = x.get("request")
            if r is not None:
                last = r
            # the power in force (the last request sent) must lie within the latest bounds received:
            # a bounds update that invalidates it has to be followed by a new request
            if e["t"] == "bounds" and last is not None and cur["incl"] is not None and M.wf_sys(cur):
                l, u = cur["incl"]
                if not (l <= last <= u):
                    out.append({"what": f"stale: after the bounds update of event {x['e']} to [{l}, {u}] the last request sent is still {last} W",
                                "finding": None})
            # what the actors are told is what is in force: whenever reports go out, the targets they carry add
            # up to the last request sent (theorem C11_reported_targets_are_in_force)
            rep0 = x.get("report")
            if rep0 is not None and (rep0["reg_target"] is not None or rep0["op_target"] is not None):
                s0 = (rep0["reg_target"] or 0) + (rep0["op_target"] or 0)
                if last != s0:
                    out.append({"what": f"in-force: after event {x['e']} the actors are told targets {rep0['reg_target']} + {rep0['op_target']} "
                                        f"but the last request sent is {last}", "finding": None})
            if r is None:
                continue
            rep = x.get("report")
            if rep is not None:
                s = (rep["reg_target"] or 0) + (rep["op_target"] or 0)
                if r != s:
                    out.append({"what": f"sum: request {r} W after event {x['e']} but the reports say regular {rep['reg_target']} + operating point {rep['op_target']}",
                                "finding": None})
            if cur is not None and cur["incl"] is not None and M.wf_sys(cur):
                l, u = cur["incl"]
                if not (l <= r <= u):
                    out.append({"what": f"bounds: request {r} W after event {x['e']} is outside the latest system inclusion bounds [{l}, {u}]",
                                "finding": None})
            if x.get("n_requests", 0) > 1:
                out.append({"what": f"more than one request ({x['n_requests']}) sent for one event {x['e']}", "finding": None})
        return out
