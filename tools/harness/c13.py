"""C13 -- missing formula inputs propagate as None, or count as zero on request."""
from __future__ import annotations

import json

from harness import formula as FM
from harness import c05

ID = "C13"
PROPS = "props/C13.v"
NEEDS = ["operator_precedence", "Adder_apply", "Subtractor_apply", "Multiplier_apply", "Divider_apply", "Maximizer_apply", "Minimizer_apply", "Consumption_apply", "Production_apply", "Clipper_apply", "ConstantValue_apply"]


def boundary_ho():
    """every operator x operand position x encoding of 'missing' x both flags, zero divisors"""
    out = []
    for op in FM.HOPS:
        for enc in FM.MISSING:
            for nz in (False, True):
                rows = [{"0": enc, "1": 3}, {"0": 3, "1": enc}, {"0": enc, "1": enc}, {"0": -2, "1": 5}, {"0": 4, "1": 0}, {"0": 0, "1": 0}]
                out.append({"kind": "ho", "tree": ["e", ["s", 0], op, 1], "nz": nz, "rows": rows, "src_nz": {"0": False, "1": False}})
                out.append({"kind": "ho", "tree": ["b", ["s", 0], op, ["s", 1]], "nz": nz, "rows": rows, "src_nz": {"0": False, "1": False}})
        for z0, z1 in ((True, False), (False, True)):
            rows = [{"0": "none", "1": 3}, {"0": 3, "1": "nan"}, {"0": "inf", "1": "-inf"}]
            out.append({"kind": "ho", "tree": ["e", ["s", 0], op, 1], "nz": False, "rows": rows, "src_nz": {"0": z0, "1": z1}})
    # non-finite constants: the result itself is +-inf / nan although every input is present
    for op in FM.HOPS:
        for c in ("inf", "-inf", "nan"):
            rows = [{"0": 3}, {"0": 0}, {"0": -2}, {"0": "none"}]
            out.append({"kind": "ho", "tree": ["c", ["s", 0], op, c], "nz": False, "rows": rows, "src_nz": {"0": False}})
            out.append({"kind": "ho", "tree": ["u", ["c", ["s", 0], op, c], "consumption"], "nz": True, "rows": rows, "src_nz": {"0": False}})
            out.append({"kind": "ho", "tree": ["e", ["c", ["s", 0], op, c], "/", 0], "nz": False, "rows": rows, "src_nz": {"0": False}})
    for u in ("consumption", "production"):
        for enc in FM.MISSING:
            for nz in (False, True):
                out.append({"kind": "ho", "tree": ["u", ["s", 0], u], "nz": nz, "rows": [{"0": enc}, {"0": -4}, {"0": 4}, {"0": 0}], "src_nz": {"0": False}})
    return out


class StrStream(c05.StrStream):
    p_unaligned = 0.3
    n_quick = 700
    n_thorough = 15000
    p_missing = (0.15, 0.3, 0.5)


class HoStream(c05.HoStream):
    p_unaligned = 0.3
    n_quick = 700
    n_thorough = 15000
    p_missing = (0.15, 0.3, 0.5)
    p_src_nz = 0.3

    def gen(self, rng, tier):
        yield from boundary_ho()
        yield from super().gen(rng, tier)


class RawStream(FM.FormulaStream):
    """FormulaBuilder call sequences (per-stream nones_are_zeros through push_metric, clippers,
    ill-formed sequences).  Correspondence only, plus: a well-formed sequence never loses a timestamp."""
    name = "builder_calls"
    check_fn = "check_raw"
    n_quick = 500
    n_thorough = 10000

    def gen(self, rng, tier):
        for same in (True, False):          # x * x by pushing "x" twice: same receiver object / a fresh one
            yield {"kind": "raw", "wellformed": True, "calls": [["m", 1, False], ["o", "*"], ["m", 1, False] + ([True] if same else [])],
                   "rows": [{"1": 3}, {"1": -2}, {"1": "none"}]}
        n = self.n_quick if tier == "quick" else self.n_thorough
        for _ in range(n):
            yield FM.gen_raw_case(rng)

    def to_coq(self, case, obs):
        return FM.term_raw(case, obs)

    def oracle(self, case, obs):
        out = []
        if case.get("wellformed") and not obs.get("no_inputs") and case["rows"]:
            try:
                FM.raw_ref(case, case["rows"][0])
            except (AssertionError, ValueError, IndexError, TypeError, KeyError):
                return out          # a shrunk call sequence that is no longer well-formed: not judged
            FM.judge_rows(case, obs, lambda row: FM.raw_ref(case, row), out)
        return out

    def key(self, case, obs):
        if len(case["calls"]) < 3:
            return None
        return json.dumps([case["calls"], case["rows"]], sort_keys=True)

    def labels(self, case, obs):
        out = []
        if any(o == "dropped" for o in obs.get("out", [])):
            out.append("round_dropped(ill-formed)")
        if any(c[0] == "clip" for c in case["calls"]):
            out.append("clipper")
        flags = {}
        for c in case["calls"]:
            if c[0] == "m":
                flags.setdefault(c[1], set()).add(c[2])
        if any(len(v) > 1 for v in flags.values()):
            out.append("same_name_two_flags(first_wins)")
        if any(c[0] == "m" and len(c) > 3 and c[3] for c in case["calls"]):
            out.append("name_pushed_again_with_the_same_receiver_object")
        return out + FM.row_labels(case)


class Ho3Stream(FM.FormulaStream):
    """3-phase composition (FormulaEngine3Phase / HigherOrderFormulaBuilder3Phase.build): phase p of every
    Sample3Phase must be the tree evaluated on the phase-p inputs, under the build's nones_are_zeros."""
    name = "three_phase"
    check_fn = "check_ho_multi"
    n_quick = 150
    n_thorough = 3000

    def gen(self, rng, tier):
        for nz in (False, True):
            yield {"kind": "ho3", "tree": ["e", ["s", 0], "-", 1], "nz": nz, "share": False, "src_nz": {"0": False, "1": False},
                   "rows": [{"0:0": 1, "0:1": "none", "0:2": 3, "1:0": 10, "1:1": 20, "1:2": "nan"}, {"0:0": 4, "0:1": 5, "0:2": 6, "1:0": 1, "1:1": 1, "1:2": 1}]}
        names = [f"{n}:{ph}" for n in (0, 1) for ph in range(3)]
        for offs in FM.PHASE_OFFSETS:        # every combination of per-phase start offsets
            yield {"kind": "ho3", "tree": ["e", ["s", 0], "+", 1], "nz": False, "share": False, "src_nz": {"0": False, "1": False},
                   "pre_rows": FM.phase_pre_rows(rng, names, offs),
                   "rows": [{n: 100 * k + 10 * int(n[0]) + int(n[2]) for n in names} for k in range(1, 4)]}
        for _ in range(self.n_quick if tier == "quick" else self.n_thorough):
            yield FM.gen_ho3_case(rng)

    def to_coq(self, case, obs):
        return FM.term_ho3(case, obs)

    def oracle(self, case, obs):
        out = []
        src = case.get("src_nz", {})
        for ph, d in enumerate(obs["phases"]):
            sub = []
            FM.judge_rows({"rows": [FM.phase_row(r, ph) for r in case["rows"]]}, d,
                          lambda row: FM.eval_hb(case["tree"], row, lambda n: case["nz"] or src.get(str(n), False)), sub)
            for v in sub:
                v["what"] = v["what"].split(":")[0] + f": phase {ph + 1}: " + v["what"].split(":", 1)[1]
            out += sub
        return out

    def key(self, case, obs):
        return json.dumps([case["tree"], case["rows"]], sort_keys=True)

    def labels(self, case, obs):
        return [f"nz={case['nz']}"] + (["phases_start_at_different_timestamps"] if case.get("pre_rows") else []) + FM.row_labels(case)


class PoolStream(c05.PoolStream):
    n_quick = 120
    n_thorough = 3000


def streams():
    return [StrStream(), HoStream(), RawStream(), FM.FloatBoundaryStream(), PoolStream(), Ho3Stream()]


ASSUMPTIONS = [
    "The step semantics modelled is the repaired one (fix: commits 8bfc9a9 division by zero -> NaN, 0c93204 NaN-aware max/min).",
    "'Needed input' = every stream the expression mentions (all operators, max/min included, are strict).",
    "Exact arithmetic (rnd = Num) for the string theorem; the operator-API theorems and the per-step NaN lemmas hold for every "
    "rounding function rnd (overflow to +-inf is then 'result not finite').",
    "A formula has at least one input stream; all streams deliver one sample per timestamp in lock-step (C06 covers synchronisation).",
]
TRUSTED = c05.TRUSTED

META = {
    "technique": "Coq proof (NaN propagation for every step kind and operand position and every rounding function; an invariant of the "
                 "post-fix executor: a NaN once fetched stays on the stack; strictness and stack discipline of compiled programs by structural "
                 "induction) + T-tie translation of _operator_precedence and of the step classes' apply bodies + differential correspondence of the formula engine vs the model "
                 "evaluated inside Coq, with missing masks (None/NaN/+-inf), both nones_are_zeros settings per stream and per build, zero divisors",
    "level_text": "Machine-checked theorems, closed under the global context, on the Gallina model of MetricFetcher.apply, the step classes, "
                  "FormulaEvaluator.apply and the builders: NaN in => NaN out for + - * / max min (either operand), consumption, production, "
                  "clip; a zero divisor gives NaN; through ANY post-fix program a fetched NaN is still on the stack at the end; for every builder "
                  "tree a sample is emitted in every round, it is None iff a needed input is missing on a stream not configured as zero or the "
                  "tree's value on the zero-filled inputs is NaN/inf, otherwise it is that value; with nones_are_zeros every encoding of missing "
                  "behaves exactly like 0; for formula strings (exact arithmetic) the sample is the ordinary value or None when that is undefined. "
                  "Tied to the code by running the real engine on generated formulas x missing masks and comparing every emitted sample "
                  "(and the absence of lost timestamps) inside Coq; the property is also judged directly on the implementation's samples.",
    "level_note": "Holds for the repaired tree only: on the unchanged tree the check reports F5 (max/min ignore a NaN second operand) and F6 "
                  "(zero divisor drops the sample) with concrete replays. Proved on the model; the tie to CPython is checked, not proved. "
                  "Float rounding/overflow is the parameter rnd. Fallback fetchers (C19) and stream synchronisation (C06) are not part of this model.",
}
