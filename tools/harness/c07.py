"""C07 — resampled timeline is aligned, gap-free and shared by all series."""
from __future__ import annotations

import json

from harness import resampler as R

ID = "C07"
PROPS = "props/C07.v"
NEEDS = ["calculate_window_end"]


def judge_c07(case, log):
    """The property statement judged on what the sinks were handed (independent of the Coq model)."""
    out = []
    p, start, align = case["period"], case["start"], case["align"]
    trace = R.build_trace(case, log)
    hogs = R.hog_list(log)
    ticks = [it[1] for it in trace if it[0] == "tick"]
    per_series = {}
    for t in ticks:
        for s, T in t["outs"]:
            per_series.setdefault(s, []).append(T)
    allT = [T for t in ticks for _, T in t["outs"]]
    # (1) exactly align_to + k*period (align_to=None: aligned to the creation instant)
    base = start if align is None else align
    for T in allT:
        if (T - base) % p != 0:
            out.append(f"alignment: timestamp {T} is not align_to + k*period (align_to={align}, period={p}, created {start})")
            break
    # (2) per series: consecutive integers k, nothing skipped, duplicated or reordered
    for s, ts in sorted(per_series.items()):
        for a, b in zip(ts, ts[1:]):
            if b - a != p:
                out.append(f"gap-free: series {s} got {a} then {b} (difference {b - a}, period {p})")
                break
    # (3) all series resampled together receive the same timestamp
    for t in ticks:
        if len({T for _, T in t["outs"]}) > 1:
            out.append(f"shared: one tick handed different timestamps {t['outs']}")
            break
    # (3b) ... and "together" means every registered series whose source is alive is served at every tick, by the sink
    #      of its current registration
    reg = []
    for it in trace:
        if it[0] == "add":
            if it[1] not in reg:
                reg.append(it[1])
        elif it[0] == "remove":
            if it[1] in reg:
                reg.remove(it[1])
        else:
            t = it[1]
            served = [s for s, _ in t["outs"]]
            want = [s for s in reg if s not in t["dead"]]
            if sorted(served) != sorted(want):
                T = t["outs"][0][1] if t["outs"] else "?"
                stale = [-(s + 1) for s in served if s < 0]
                out.append(f"shared: the tick that handed out {T} served series {served}, registered and alive are {want}"
                           + (f" (the sink of a removed registration of series {stale} was driven)" if stale else ""))
                break
            for k, sid, _ in t["during"]:
                if k == "add" and sid not in reg:
                    reg.append(sid)
                elif k == "remove" and sid in reg:
                    reg.remove(sid)
    # (4) starts no earlier than creation, no later than two periods after it
    if allT and min(allT) < start:
        out.append(f"start: timestamp {min(allT)} precedes the creation instant {start}")
    tick0_known = case["one_shot"] or (bool(trace) and trace[0][0] == "add" and trace[0][2] == 0)
    if tick0_known:
        i = next((i for i, t in enumerate(ticks) if t["outs"]), None)
        if i is not None:
            T0 = ticks[i]["outs"][0][1] - i * p
            if T0 > start + 2 * p or T0 < start:
                out.append(f"start: the first window end {T0} is not within two periods after the creation instant {start}")
    # (5) the ticks of the grid follow each other: tick k+1 carries the next grid point, also across
    #     ticks without sink calls (observed in one_shot mode)
    prevT = None
    for t in ticks:
        T = t["outs"][0][1] if t["outs"] else (None if prevT is None else prevT + p)
        if T is not None and prevT is not None and T != prevT + p and t["outs"]:
            out.append(f"gap-free: a tick carried {T} after a tick that carried {prevT}")
            break
        t["T"] = T
        prevT = T
    # (6) timer alignment / no tick lost: the tick for window end T is delivered at T, or as soon as the loop is
    #     free again (TriggerAllMissed: late ticks come in a burst, none dropped), never before T
    prev_done = 0
    INF = 1 << 62
    for t in ticks:
        T = t.get("T")
        if T is None:
            prev_done = max(prev_done, t["mclk"] or t["fire"])
            continue
        exp = max(T - start, prev_done)
        skip = False
        for h0, h1 in hogs:
            if abs(exp - h0) <= 2:
                skip = True
            if h0 <= exp < h1:
                exp = h1
        if t["fire"] + start < T:
            out.append(f"future: the sample stamped {T} was handed out at wall-clock {t['fire'] + start}, before its window ended")
            break
        if not skip and prev_done < INF and abs(t["fire"] - exp) > 1:
            out.append(f"timer: the tick for window end {T} fired at +{t['fire']} us after creation, expected +{exp} "
                       f"(window end at +{T - start}, loop free at +{prev_done})")
            break
        done = [c for c, _ in t["exits"].values()] + ([t["mclk"]] if t["mclk"] is not None else [])
        if len(t["exits"]) < len(t["outs"]) and t["marker"] is None:
            prev_done = INF
        else:
            prev_done = max(done + [t["fire"]])
    # (7) nothing missing at the end: the tick after the last observed one must not be overdue
    endclk = next((e[1] for e in log if e[0] == "end"), None)
    last = next((t for t in reversed(ticks) if t.get("T") is not None), None)
    if last is not None and endclk is not None and prev_done < INF:
        nxt = max(last["T"] + p - start, prev_done)
        if nxt < endclk - 3 and not any(h0 - 3 <= nxt <= h1 + 3 for h0, h1 in hogs) and (case["one_shot"] or last["outs"]):
            registered = _registered_at_end(trace)
            if registered or case["one_shot"]:
                out.append(f"skipped: no tick for window end {last['T'] + p} although it was due at +{nxt} (run ended at +{endclk})")
    # (8) a series added long after creation starts at the first grid point after its registration
    if not case["one_shot"] and trace and trace[0][0] == "add" and trace[0][2] > 2 * p and not hogs:
        first = next((t for t in ticks if t["outs"]), None)
        if first is not None:
            a = trace[0][2] + start
            T = first["outs"][0][1]
            if not (a < T <= a + p):
                out.append(f"first: series registered at {a} first received {T}, not the first grid point after its registration")
    return [{"what": w, "finding": None} for w in out]


def _registered_at_end(trace):
    reg = []
    for it in trace:
        if it[0] == "add" and it[1] not in reg:
            reg.append(it[1])
        elif it[0] == "remove" and it[1] in reg:
            reg.remove(it[1])
    return reg


class C07Stream(R.ScenarioStream):
    name = "timeline"
    coq_header = R.C07_HEADER
    n_quick = 800
    n_thorough = 15000

    def gen(self, rng, tier):
        yield from R.c07_boundary_cases()
        n = self.n_quick if tier == "quick" else self.n_thorough
        for _ in range(n):
            yield R.gen_c07_case(rng, tier)

    def to_coq(self, case, obs):
        if R.ambiguous(case, obs["log"]):
            return None
        return R.c07_term(case, obs)

    def show_term(self, case, obs):
        return f"window_end {R.cZ(case['start'])} {R.cZ(case['period'])} {R.copt(case['align'])}"

    def oracle(self, case, obs):
        if R.ambiguous(case, obs["log"]):
            return []
        return judge_c07(case, obs["log"])

    def key(self, case, obs):
        n = sum(1 for e in obs["log"] if e[0] == "sink")
        if n < 2:
            return None
        return json.dumps([case["period"], case["align"], case["start"], case["loop_t0"], case["series"], case["hogs"]], sort_keys=True)

    def labels(self, case, obs):
        log = obs["log"]
        out = []
        tag = case.get("tag", {})
        out.append(f"align={tag.get('align')}")
        out.append(f"phase={tag.get('phase')}")
        out.append(f"period={case['period']}")
        out.append("one_shot" if case["one_shot"] else "forever")
        out.append(f"fn={case.get('fn', 'index')}")
        vals = {e[3] for e in log if e[0] == "sink"}
        for v in ("nan", "inf", "-inf"):
            if v in vals:
                out.append(f"emitted_value_{v}")
        if None in vals and any(e[0] == "fn" for e in log):
            out.append("emitted_value_None")
        if case.get("align_tz"):
            out.append("align_to_in_DST_zone")
            xs = R.DST_ZONES[case["align_tz"]]
            if any(case["start"] < x < case["start"] + case["duration"] for x in xs):
                out.append("run_crosses_DST_transition")
        if R.ambiguous(case, log):
            out.append("ambiguous_order(not judged)")
        if any(e[0] == "hog" for e in log):
            out.append("timer_late(hog)")
        if any(e[0] == "raised" for e in log):
            out.append("resampling_error")
        if any(e[0] == "crash" for e in log):
            out.append("other_exception_restart")
        if any(e[0] == "srcstop" for e in log):
            out.append("source_stopped")
        if any(s.get("lat") for s in case["series"]):
            out.append("sink_latency")
        if any(s["add_at"] > 0 for s in case["series"]):
            out.append("added_while_running")
        adds = [e[1] for e in log if e[0] == "add"]
        if len(adds) != len(set(adds)):
            out.append("re-added_with_same_source_after_failure")
        trace = R.build_trace(case, log)
        for it in trace:
            if it[0] == "tick":
                t = it[1]
                if t["during"]:
                    out.append("dict_changed_during_gather")
                if t["marker"] == "raised" and sorted(t["raised"]) != sorted(set(t["fail"]) | (set(t["dead"]) & {s for s, _ in t["outs"]} )) and t["during"]:
                    out.append("error_attributed_to_other_series")
        out = sorted(set(out))
        p, start = case["period"], case["start"]
        lates = [t["fire"] - (t["outs"][0][1] - start) for k, t in ((it[0], it[1]) for it in trace if it[0] == "tick") if t["outs"]]
        if any(l == p for l in lates):
            out.append("late_exactly_one_period")
        if any(l > p for l in lates):
            out.append("late_more_than_one_period")
        if any(0 < l < p for l in lates):
            out.append("late_less_than_one_period")
        out.append(f"ticks={min(len(lates), 15)}")
        return out


def streams():
    return [C07Stream(), ActorStream(), MovingWindowStream()]


TRUSTED = ["async_solipsism 0.7 virtual event loop (integer-microsecond clock) + time_machine slaved to it",
           "the scenario driver of tools/harness/resampler.py (scripted sources/sinks, blocked-loop injection, log -> trace)"]

ASSUMPTIONS = [
    "frequenz.channels Timer(period, TriggerAllMissed) yields exactly one tick per elapsed period, late ticks in a burst, "
    "none dropped (runtime behaviour: exercised by the harness under async_solipsism with blocked-loop and slow-sink "
    "scripts and judged by the oracle's timer clause, not proved)",
    "asyncio.gather awaits every sink of a tick before the loop continues; dict preserves insertion order",
    "wall clock and loop clock advance together (time_machine is slaved to the virtual loop clock)",
    "the Z-microsecond model is a model of UTC instants; Python's wall-clock arithmetic on tz-aware datetimes is not "
    "translated but exercised: align_to is also given in DST-observing zoneinfo zones with runs crossing a transition / "
    "creation in the other regime, and every recorded timestamp is compared as a UTC instant",
]

META = {
    "technique": "Coq proof (arithmetic of _calculate_window_end; invariant of the window-end bookkeeping by induction over "
                 "arbitrary event sequences; label-irrelevance) + T-tie translation of Resampler._calculate_window_end + "
                 "trace correspondence of the real Resampler (public API, async_solipsism virtual time + time_machine) "
                 "against the model evaluated in Coq + property oracle on the recorded sink calls",
    "level_text": "Machine-checked theorems, closed under the global context, on a Gallina model of the resampler's timeline: the "
                  "first window end is the first grid point >= creation + period (so within [creation+period, creation+2*period)), "
                  "aligned to align_to (or to the creation instant), and equals the instant the timer is armed for; for EVERY "
                  "sequence of ticks / additions / removals / failing sinks the k-th tick hands every registered series "
                  "w0 + k*period, independent of lateness labels, also on the ResamplingError path and on the IndexError path (add_timeseries while a tick's sinks are awaited kills resample(); the model pairs results with the changed key list exactly as the code does, and the window end has already advanced). The function "
                  "_calculate_window_end is regenerated from /repo on every run; the loop bookkeeping is tied by replaying "
                  "recorded boundary traces of the real Resampler through the model inside Coq.",
    "level_note": "Time in the model is the UTC instant in microseconds; tz-aware wall-clock arithmetic (DST) is Python semantics "
                  "covered by scenarios (align_to in Europe/Berlin / America/New_York across transitions), not by the translation. "
                  "Not proved, only exercised: Timer(TriggerAllMissed) delivering one tick per elapsed period (the oracle's timer "
                  "clause checks it on every run), asyncio scheduling, the supervisor loop of microgrid/_resampling.py (mimicked by "
                  "the harness: on ResamplingError remove the failing sources and call resample() again). Runs in which a driver "
                  "action and a tick are due at the same clock reading are not judged (asyncio gives no order there); they are counted.",
}


# ----------------------------------------------------------------------------- the real actor
def judge_actor(case, log):
    out = []
    p, start, align = case["period"], case["start"], case["align"]
    hogs = R.hog_list(log)
    # while the actor's _run is not running (stop()..start(), or between an unhandled exception and the re-entry by the
    # Actor base) nothing can be published: like a blocked loop, the missed windows must come in a burst afterwards
    down = None
    for e in log:
        if e[0] == "down":
            down = e[1]
        elif e[0] == "up" and down is not None:
            hogs.append((down, e[1]))
            down = None
    if down is not None:
        hogs.append((down, 1 << 62))
    hogs.sort()
    per = {}
    for e in log:
        if e[0] == "out":
            per.setdefault(e[1], []).append((e[2], e[3]))
    base = start if align is None else align
    for sid, xs in sorted(per.items()):
        for T, clk in xs:
            if (T - base) % p != 0:
                out.append(f"alignment: metric {sid} got timestamp {T}, not align_to + k*period")
                break
            if T < start:
                out.append(f"start: metric {sid} got timestamp {T} before the creation instant {start}")
                break
            if clk + start < T:
                out.append(f"future: metric {sid}: the sample stamped {T} was sent at wall-clock {clk + start}")
                break
            exp = T - start
            skip = False
            for h0, h1 in hogs:
                if abs(exp - h0) <= 2 or abs(exp - h1) <= 2:
                    skip = True
                if h0 <= exp < h1:
                    exp = h1
            if not skip and abs(clk - exp) > 1:
                out.append(f"timer: metric {sid}: the sample stamped {T} was sent at +{clk}, expected +{exp}")
                break
        for (a, _), (b, _) in zip(xs, xs[1:]):
            if b - a != p:
                out.append(f"gap-free: metric {sid} got {a} then {b} (period {p})")
                break
        req_at = case["metrics"][sid]["req_at"]
        if req_at == 0 and xs and not (start <= xs[0][0] <= start + 2 * p):
            out.append(f"start: first timestamp {xs[0][0]} not within two periods after creation {start}")
    # shared: what is sent at one clock reading... one tick = one timestamp; two metrics both alive must agree on the grid
    allT = sorted({T for xs in per.values() for T, _ in xs})
    for a, b in zip(allT, allT[1:]):
        if (b - a) % p != 0:
            out.append(f"shared: timestamps {a} and {b} of different metrics are not on one grid")
            break
    return [{"what": w, "finding": None} for w in out[:1]]     # one per case: the replays then show different cases


class ActorStream(R.Stream):
    """ComponentMetricsResamplingActor end to end (real channels, real supervisor loop); oracle only."""
    name = "actor"
    coq_header = R.C07_HEADER
    n_quick = 150
    n_thorough = 1500

    def gen(self, rng, tier):
        for _ in range(self.n_quick if tier == "quick" else self.n_thorough):
            yield R.gen_actor_case(rng, tier)

    def run_impl(self, case):
        return R.run_actor_scenario(case)

    def to_coq(self, case, obs):
        return None

    def oracle(self, case, obs):
        return judge_actor(case, obs["log"])

    def key(self, case, obs):
        if sum(1 for e in obs["log"] if e[0] == "out") < 2:
            return None
        return json.dumps(case, sort_keys=True)

    def labels(self, case, obs):
        out = ["actor_run"]
        if case.get("align_tz"):
            out.append("align_to_in_DST_zone")
            if any(case["start"] < x < case["start"] + case["duration"] for x in R.DST_ZONES[case["align_tz"]]):
                out.append("run_crosses_DST_transition")
        if any(m.get("yields") is not None for m in case["metrics"]):
            out.append("request_at_tick_instant")
        for r in case.get("restarts", []):
            out.append("restart:stop/start" if r["how"] == "stop" else "restart:exception_in_run")
        if any(e[0] == "stop_hung" for e in obs["log"]):
            out.append("stop_hung(timer swallowed cancel)")
        if any(e[0] == "close" for e in obs["log"]):
            out.append("source_closed(remove-and-retry)")
        if any(e[0] == "hog" for e in obs["log"]):
            out.append("timer_late(hog)")
        return out

    def shrink(self, case):
        if case.get("restarts"):
            yield {**case, "restarts": []}
        for i in range(len(case["hogs"])):
            yield {**case, "hogs": case["hogs"][:i] + case["hogs"][i + 1:]}
        for i in range(len(case["metrics"]) - 1, 0, -1):
            yield {**case, "metrics": case["metrics"][:i] + case["metrics"][i + 1:]}
        for i, m in enumerate(case["metrics"]):
            for fld in ("close_at", "nsamples"):
                if m.get(fld) is not None:
                    yield {**case, "metrics": case["metrics"][:i] + [{k: v for k, v in m.items() if k != fld}] + case["metrics"][i + 1:]}


class MovingWindowStream(R.ScenarioStream):
    """The Resampler a MovingWindow builds from `resampler_config` (second construction path), judged by the same
    timeline model and oracle: what the window's sink is handed must lie on align_to + k*period."""
    name = "moving_window"
    coq_header = R.C07_HEADER
    n_quick = 150
    n_thorough = 2000

    def gen(self, rng, tier):
        yield from R.mw_boundary_cases()
        for _ in range(self.n_quick if tier == "quick" else self.n_thorough):
            yield R.gen_mw_case(rng, tier)

    def run_impl(self, case):
        return R.run_mw_scenario(case)

    def to_coq(self, case, obs):
        return R.c07_term(case, obs)

    def oracle(self, case, obs):
        return judge_c07(case, obs["log"])

    def key(self, case, obs):
        if sum(1 for e in obs["log"] if e[0] == "sink") < 2:
            return None
        return json.dumps([case["period"], case["align"], case["align_tz"], case["start"], case["samples"][:3]], sort_keys=True)

    def labels(self, case, obs):
        out = ["moving_window_run", f"align={case['tag']['align']}"]
        if case.get("align_tz"):
            out.append("align_to_in_DST_zone")
        vals = {e[3] for e in obs["log"] if e[0] == "sink"}
        out += [f"emitted_value_{v}" for v in ("nan", "inf", "-inf") if v in vals]
        if None in vals:
            out.append("emitted_value_None")
        if any(e[0] == "hog" for e in obs["log"]):
            out.append("timer_late(hog)")
        return out

    def shrink(self, case):
        if case["hogs"]:
            yield {**case, "hogs": []}
        n = len(case["samples"])
        if n:
            yield {**case, "samples": []}
            yield {**case, "samples": case["samples"][:n // 2]}
        if case["duration"] > 3 * case["period"]:
            yield {**case, "duration": case["duration"] - 2 * case["period"]}
