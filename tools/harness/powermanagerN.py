"""C11, stream `groups`: the real PowerManagingActor serving SEVERAL component groups at once.

Every group has its own bounds channel (the only stub, as in harness/powermanager.py) and its
own pair of report subscriptions; proposals, bounds updates and distribution results of the
groups are interleaved.  Shared between the groups in the code: the select loop, the two
Matryoshka instances (one bucket per group), the 1 s expiry timer and the
`last_result_partial_failure` flag.  Model side: coq/model/PowerManagerN.v (nrun)."""
from __future__ import annotations

import asyncio
import json
from datetime import datetime, timedelta, timezone

import async_solipsism

from lib.core import Stream, cZ, copt
from harness import matryoshka as M
from harness.powermanager import UNIT, QUIESCE, _units

NG = 3
GIDS = [frozenset({k + 1}) for k in range(NG)]


async def _drive(case):
    from frequenz.channels import Broadcast
    from frequenz.client.microgrid import ComponentCategory
    from frequenz.quantities import Power
    from frequenz.sdk._internal._channels import ChannelRegistry
    from frequenz.sdk.microgrid import _power_distributing as pd
    from frequenz.sdk.microgrid._power_managing._base_classes import Proposal, ReportRequest, _Report
    from frequenz.sdk.timeseries._base_types import Bounds, SystemBounds

    base_ts = datetime.now(tz=timezone.utc)
    M.set_scale(case)
    W = lambda x: Power.from_watts(x * M.SCALE)
    loop = asyncio.get_running_loop()
    proposals, subs, reqs, results = (Broadcast(name=n) for n in "psrx")
    registry = ChannelRegistry(name="verif")
    req_rx = reqs.new_receiver(limit=1000)
    # The REAL actor class, incl. its _add_system_bounds_tracker: the module-level `_data_pipeline` it asks for a pool
    # of its own category is replaced, for the duration of the run, by a factory that records the call and hands out
    # an object whose `_system_power_bounds` is the group's bounds channel.
    from frequenz.client.microgrid import InverterType
    from frequenz.sdk.microgrid._power_managing import _power_managing_actor as PMA
    from frequenz.sdk.microgrid._power_managing._power_managing_actor import PowerManagingActor
    from types import SimpleNamespace as NS
    bounds_ch = {ids: Broadcast(name=f"b{min(ids)}") for ids in GIDS}
    pool_calls = []

    def factory(kind):
        def new_pool(*, priority, component_ids, **_kw):
            pool_calls.append([kind, sorted(component_ids), priority])
            return NS(_system_power_bounds=bounds_ch[frozenset(component_ids)])
        return new_pool
    kind = case.get("kind", "battery")
    cat = {"battery": (ComponentCategory.BATTERY, None), "ev": (ComponentCategory.EV_CHARGER, None),
           "pv": (ComponentCategory.INVERTER, InverterType.SOLAR)}[kind]
    PMA._data_pipeline = NS(new_battery_pool=factory("battery"), new_ev_charger_pool=factory("ev"), new_pv_pool=factory("pv"))
    actor = PowerManagingActor(proposals.new_receiver(limit=1000), subs.new_receiver(limit=1000), reqs.new_sender(),
                               results.new_receiver(limit=1000), registry, component_category=cat[0], component_type=cat[1])
    log = []
    ticks = []
    orig_drop = actor._set_power_group.drop_old_proposals

    def rec_drop(now):
        ticks.append(now)
        return orig_drop(now)
    actor._set_power_group.drop_old_proposals = rec_drop
    actor.start()
    rep_rx = {}
    for g, ids in enumerate(GIDS):
        for op, q in ((False, case["q_reg"]), (True, case["q_op"])):
            rr = ReportRequest(source_id=f"sub{g}{q}", component_ids=ids, priority=q, set_operating_point=op)
            rep_rx[(g, op)] = registry.get_or_create(_Report, rr.get_channel_name()).new_receiver(limit=1000)
            await subs.new_sender().send(rr)
    await asyncio.sleep(QUIESCE)
    psend, rsend = proposals.new_sender(), results.new_sender()
    bsend = {ids: bounds_ch[ids].new_sender() for ids in GIDS}
    o = lambda x: None if x is None else W(x)
    reqs_of = {g: [] for g in range(NG)}

    req_buf: list = []
    rep_buf = {k: [] for k in rep_rx}

    async def pump(rx, buf):
        async for msg in rx:
            buf.append(msg)
    pumps = [asyncio.create_task(pump(req_rx, req_buf))] + [asyncio.create_task(pump(rep_rx[k], rep_buf[k])) for k in rep_rx]

    async def collect(tag, g):
        await asyncio.sleep(QUIESCE)
        for now in ticks:
            log.append({"e": "tick", "now": _units(now)})
        ticks.clear()
        rq = list(req_buf)
        req_buf.clear()
        reps = {k: list(v) for k, v in rep_buf.items()}
        for v in rep_buf.values():
            v.clear()
        entry = {"e": tag, "g": g, "request": None, "report": None,
                 "requests": [[GIDS.index(frozenset(r.component_ids)) if frozenset(r.component_ids) in GIDS else -1, M.watts(r.power)]
                              for r in rq],
                 "n_reports": {f"{k[0]}{'o' if k[1] else 'r'}": len(v) for k, v in reps.items() if v}}
        for r in rq:
            k = GIDS.index(frozenset(r.component_ids)) if frozenset(r.component_ids) in GIDS else None
            if k is not None:
                reqs_of[k].append(r)
        mine = [r for r in rq if g is not None and frozenset(r.component_ids) == GIDS[g]]
        if mine:
            entry["request"] = M.watts(mine[-1].power)
        if g is not None and reps[(g, False)] and reps[(g, True)]:
            rr_, ro_ = reps[(g, False)][-1], reps[(g, True)][-1]
            b = lambda r: None if r.bounds is None else [M.watts(r.bounds.lower), M.watts(r.bounds.upper)]
            entry["report"] = {"reg_target": M.watts(rr_.target_power), "op_target": M.watts(ro_.target_power),
                               "reg_bounds": b(rr_), "op_bounds": b(ro_)}
        log.append(entry)

    for i, e in enumerate(case["events"]):
        g = e.get("g")
        if e["t"] == "prop":
            await psend.send(Proposal(source_id=e["src"], preferred_power=o(e["pref"]), bounds=Bounds(o(e["lo"]), o(e["hi"])),
                                      component_ids=GIDS[g], priority=e["prio"], creation_time=loop.time(),
                                      set_operating_point=e["op"]))
            log.append({"e": "now", "i": i, "now": _units(loop.time())})
        elif e["t"] == "bounds":
            sb = M.mk_sys(e["sys"])
            sb = SystemBounds(timestamp=base_ts + timedelta(seconds=e.get("ts", 0)),
                              inclusion_bounds=sb.inclusion_bounds, exclusion_bounds=sb.exclusion_bounds)
            await bsend[GIDS[g]].send(sb)
        elif e["t"] == "result":
            back = e.get("back", 0)
            mine = reqs_of[g]
            req = mine[-1 - back] if len(mine) > back else (mine[-1] if mine else pd.Request(power=W(0), component_ids=GIDS[g]))
            if e["k"] == 0:
                res = pd.Success(request=req, succeeded_power=req.power, succeeded_components=set(GIDS[g]), excess_power=W(0))
            elif e["k"] == 1:
                res = pd.PartialFailure(request=req, succeeded_power=W(0), succeeded_components=set(), excess_power=W(0),
                                        failed_power=req.power, failed_components=set(GIDS[g]))
            else:
                res = pd.Error(request=req, msg="verif")
            await rsend.send(res)
        elif e["t"] == "sleep":
            await asyncio.sleep(e["dt"] / 8.0)
        elif e["t"] == "restart":
            # stop() followed by start() of the manager itself; everything around it keeps running
            await actor.stop()
            actor.start()
        await collect(i, g)
    for t in pumps:
        t.cancel()
    await actor.stop()
    log.append({"e": "pools", "calls": pool_calls})
    return log


_REAL_PIPELINE = []


def run_actor(case):
    from frequenz.sdk.microgrid._power_managing import _power_managing_actor as PMA
    if not _REAL_PIPELINE:
        _REAL_PIPELINE.append(PMA._data_pipeline)
    loop = async_solipsism.EventLoop()
    try:
        return loop.run_until_complete(_drive(case))
    finally:
        PMA._data_pipeline = _REAL_PIPELINE[0]
        import gc
        gc.collect()
        loop.close()


HEADER = """From Verif Require Import model.PowerManagerN.
Definition bnds_eqb (a b : option (Z * Z)) := opt_eqb (pair_eqb Z.eqb Z.eqb) a b.
Definition rep_eqb (a b : report) : bool :=
  optZ_eqb (r_reg_target a) (r_reg_target b) && optZ_eqb (r_op_target a) (r_op_target b) &&
  bnds_eqb (r_reg_bounds a) (r_reg_bounds b) && bnds_eqb (r_op_bounds a) (r_op_bounds b).
Definition obs_eqb (a b : nobs) : bool :=
  opt_eqb (fun x y => let '(k1, r1, p1) := x in let '(k2, r2, p2) := y in
                      Nat.eqb k1 k2 && optZ_eqb r1 r2 && opt_eqb rep_eqb p1 p2) a b.
Definition case_t := (Z * Z * list nevent * list nobs)%type.
Definition check (c : case_t) : bool :=
  let '(q_reg, q_op, h, exp) := c in
  list_eqb obs_eqb (nrun max_proposal_age_us max_proposal_age_op_us q_reg q_op (pmn_init 3) h) exp.
"""


def model_events(case, log):
    evs, exp = [], []
    srcs = sorted({e["src"] for e in case["events"] if e["t"] == "prop"})
    rank = {s: i for i, s in enumerate(srcs)}
    now_of = {x["i"]: x["now"] for x in log if x["e"] == "now"}
    for x in log:
        if x["e"] == "tick" and any(abs((x["now"] - t) - 60 * UNIT) <= 2 for t in now_of.values()):
            return None, None     # float subtraction at the exact expiry boundary is not modelled
    for k, x in enumerate(log):
        if x["e"] in ("now", "pools"):
            continue
        if x["e"] == "tick":
            if k + 1 < len(log) and log[k + 1]["e"] == "tick":
                continue          # coalesced (theorem C11_tick_coalescing_sound)
            evs.append(f"(NTick {cZ(x['now'])})")
            exp.append("None")
            continue
        e = case["events"][x["e"]]
        if e["t"] == "sleep":
            continue
        if e["t"] == "restart":
            evs.append("NRestart")
            exp.append("None")
            continue
        g = e["g"]
        if e["t"] == "prop":
            pe = (f"(PProp {'true' if e['op'] else 'false'} (mkP {cZ(e['prio'])} {cZ(rank[e['src']])} {copt(e['pref'])} "
                  f"{copt(e['lo'])} {copt(e['hi'])} {cZ(now_of[x['e']])}))")
        elif e["t"] == "bounds":
            pe = f"(PBounds {M.c_sys(e['sys'])})"
        else:
            pe = f"(PResult {cZ(e['k'])})"
        evs.append(f"(NE {g}%nat {pe})")
        r = x["report"]
        if r is None:
            rep = "None"
        else:
            b = lambda v: "None" if v is None else f"(Some ({cZ(v[0])}, {cZ(v[1])}))"
            rep = f"(Some (mkR {copt(r['reg_target'])} {copt(r['op_target'])} {b(r['reg_bounds'])} {b(r['op_bounds'])}))"
        exp.append(f"(Some ({g}%nat, {copt(x['request'])}, {rep}))")
    return evs, exp


def gen_case(rng, maxlen=16):
    evs = []
    for g in range(NG):
        if rng.random() < 0.85:
            evs.append({"t": "bounds", "g": g, "sys": M.gen_sys(rng, allow_none=False)})
    nsrc = rng.randint(1, 3)
    shared = rng.random() < 0.7      # the same actor identities propose for several groups
    for _ in range(rng.randint(2, maxlen)):
        r = rng.random()
        g = rng.randrange(NG)
        if r < 0.45:
            p = M.gen_prop(rng, nsrc, 0)
            evs.append({"t": "prop", "g": g, "op": rng.random() < 0.45, "src": p["src"] if shared else f"{p['src']}g{g}",
                        "prio": p["prio"], "pref": p["pref"], "lo": p["lo"], "hi": p["hi"]})
        elif r < 0.7:
            evs.append({"t": "bounds", "g": g, "sys": M.gen_sys(rng, allow_none=rng.random() < 0.2),
                        "ts": rng.choice([-100, -1, 0, 0, 1, 100])})
        elif r < 0.86:
            evs.append({"t": "result", "g": g, "k": rng.choice([0, 1, 1, 1, 2]), "back": rng.choice([0, 0, 1])})
        elif r < 0.9:
            evs.append({"t": "restart"})
        else:
            evs.append({"t": "sleep", "dt": rng.choice([1, 8, 80, 240, 400, 479, 481, 500])})
    q = rng.choice([-2, 0, 1, 2, 3, 7])
    return M.gen_scale(rng, {"events": evs, "kind": rng.choice(["battery", "battery", "ev", "pv"]), "q_reg": q, "q_op": q if rng.random() < 0.4 else rng.choice([-2, 0, 1, 2, 3, 7])})


def boundary_cases():
    P = lambda g, op, src, prio, pref, lo=None, hi=None: {"t": "prop", "g": g, "op": op, "src": src, "prio": prio, "pref": pref, "lo": lo, "hi": hi}
    B = lambda g, l, u: {"t": "bounds", "g": g, "sys": {"incl": [l, u], "excl": [0, 0]}}
    R = lambda g, k: {"t": "result", "g": g, "k": k}
    return [
        # the manager is stopped and started again; afterwards the bounds of a known group shrink
        {"events": [B(0, -100, 100), P(0, False, "a", 1, 80), P(0, True, "a", 1, 15), {"t": "restart"}, B(0, -60, 60),
                    P(0, False, "a", 1, 80), {"t": "restart"}, R(0, 1), R(0, 1)], "q_reg": 1, "q_op": 2},
        # the partial-failure flag is shared: group 1's failure right after group 0's is not retried
        {"events": [B(0, -100, 100), B(1, -50, 50), P(0, True, "a", 1, 70), P(1, False, "a", 1, 80), P(0, False, "a", 1, 20),
                    R(0, 1), R(1, 1), R(1, 0), R(1, 1)], "q_reg": 1, "q_op": 2},
        # the same actor identity in two groups; the old proposal in group 0 expires, the fresh one in group 1 stays
        {"events": [B(0, -100, 100), B(1, -100, 100), P(0, False, "a", 3, 50), {"t": "sleep", "dt": 400}, P(1, False, "a", 3, -40),
                    P(1, False, "b", 1, 90, None, None), {"t": "sleep", "dt": 100}, B(1, -60, 60), B(0, -60, 60)], "q_reg": 1, "q_op": 2},
    ]


def shrink_case(case):
    ev = case["events"]
    for i in range(len(ev)):
        yield {**case, "events": ev[:i] + ev[i + 1:]}
    for i, e in enumerate(ev):
        if e["t"] == "prop":
            for fld in ("pref", "lo", "hi"):
                if e[fld] is not None:
                    yield {**case, "events": ev[:i] + [{**e, fld: None}] + ev[i + 1:]}


class GroupsStream(Stream):
    name = "groups"
    coq_header = HEADER
    coq_targets = ["model/PowerManagerN.vo"]

    def gen(self, rng, tier):
        yield from boundary_cases()
        for _ in range(300 if tier == "quick" else 3000):
            yield gen_case(rng, 12 if rng.random() < 0.8 else 24)

    def run_impl(self, case):
        return run_actor(case)

    def to_coq(self, case, obs):
        evs, exp = model_events(case, obs)
        if evs is None:
            return None
        return f"(({cZ(case['q_reg'])}, {cZ(case['q_op'])}, [{'; '.join(evs)}], [{'; '.join(exp)}]) : case_t)"

    def show_term(self, case, obs):
        evs, _ = model_events(case, obs)
        return (f"nrun max_proposal_age_us max_proposal_age_op_us {cZ(case['q_reg'])} {cZ(case['q_op'])} (pmn_init 3) "
                f"[{'; '.join(evs)}]")

    def shrink(self, case):
        return shrink_case(case)

    def key(self, case, obs):
        if not any(x.get("request") is not None for x in obs):
            return None
        return json.dumps(case, sort_keys=True)


    def labels(self, case, obs):
        out = [f"events={min(len(case['events']), 25)}"]
        if case.get("scale", 1) != 1:
            out.append("fractional_or_scaled_watts")
        used = {e["g"] for e in case["events"] if e["t"] == "prop"}
        out.append(f"groups_with_proposals={len(used)}")
        by_actor = {}
        for e in case["events"]:
            if e["t"] == "prop":
                by_actor.setdefault((e["prio"], e["src"], e["op"]), set()).add(e["g"])
        if any(len(v) > 1 for v in by_actor.values()):
            out.append("actor_in_several_groups")
        if any(e["t"] == "restart" for e in case["events"]):
            out.append("manager_stopped_and_started")
        pf = [e["g"] for e in case["events"] if e["t"] == "result" and e["k"] == 1]
        if len(set(pf)) > 1:
            out.append("partial_failures_in_several_groups")
        if any(x["e"] == "tick" for x in obs):
            out.append("timer_ticks")
        out.append("manager_category=" + case.get("kind", "battery"))
        out.append(f"requests={min(sum(1 for x in obs if x.get('request') is not None), 10)}")
        return out

    def oracle(self, case, obs):
        """Per group: request = sum of that group's two reported targets, inside that group's latest
        bounds; a bounds update that invalidates the group's last request is followed by a new one;
        an event of one group causes no request for another group."""
        out = []
        cur = {g: None for g in range(NG)}
        last = {g: None for g in range(NG)}
        for x in obs:
            if x["e"] == "pools":
                # the bounds of a group come from a pool of the actor's own category over exactly that group's ids
                want = sorted([case.get("kind", "battery"), sorted(ids)] for ids in GIDS)
                got = sorted(c[:2] for c in x["calls"])
                if got != want:
                    out.append({"what": f"wiring: the manager asked the data pipeline for bounds pools {got}, its groups need {want}", "finding": None})
                continue
            if x["e"] in ("tick", "now"):
                continue
            e = case["events"][x["e"]]
            g = e.get("g")
            if e["t"] in ("sleep", "restart"):
                if x.get("requests"):
                    out.append({"what": f"a request {x['requests']} was sent while nothing happened (event {x['e']}: {e['t']})", "finding": None})
                continue
            if e["t"] == "bounds":
                cur[g] = e["sys"]
            others = [r for r in x.get("requests", []) if r[0] != g]
            if others:
                out.append({"what": f"other-group: event {x['e']} concerns group {g} but requests {others} (group, watts) were sent", "finding": None})
            if len(x.get("requests", [])) - len(others) > 1:
                out.append({"what": f"more than one request sent for one event {x['e']}: {x['requests']}", "finding": None})
            r = x.get("request")
            if r is not None:
                last[g] = r
            c = cur[g]
            if e["t"] == "bounds" and last[g] is not None and c["incl"] is not None and M.wf_sys(c):
                l, u = c["incl"]
                if not (l <= last[g] <= u):
                    out.append({"what": f"stale: after the bounds update of event {x['e']} for group {g} to [{l}, {u}] the group's last request is still {last[g]}",
                                "finding": None})
            rep0 = x.get("report")
            if rep0 is not None and (rep0["reg_target"] is not None or rep0["op_target"] is not None):
                s0 = (rep0["reg_target"] or 0) + (rep0["op_target"] or 0)
                if last[g] != s0:
                    out.append({"what": f"in-force: after event {x['e']} the actors of group {g} are told targets {rep0['reg_target']} + "
                                        f"{rep0['op_target']} but the group's last request is {last[g]}", "finding": None})
            if r is None:
                continue
            rep = x.get("report")
            if rep is not None:
                s = (rep["reg_target"] or 0) + (rep["op_target"] or 0)
                if r != s:
                    out.append({"what": f"sum: request {r} for group {g} after event {x['e']} but the group's reports say regular "
                                        f"{rep['reg_target']} + operating point {rep['op_target']}", "finding": None})
            if c is not None and c["incl"] is not None and M.wf_sys(c):
                l, u = c["incl"]
                if not (l <= r <= u):
                    out.append({"what": f"bounds: request {r} for group {g} after event {x['e']} is outside the group's latest inclusion bounds [{l}, {u}]",
                                "finding": None})
        return out
