"""C01 — battery power distribution conserves the requested power."""
from __future__ import annotations

from harness import dist as D
from harness import distmgr as MG

ID = "C01"
PROPS = "props/C01.v"
NEEDS = ["dist_close_to_zero_abs_tol", "dist_manager_exponent"]


class C01Exact(D.DistStream):
    CLAUSES = ("C01_",)


class C01Float(D.FloatStream):
    CLAUSES = ("C01_",)


class C01Reuse(D.ReuseStream):
    CLAUSES = ("C01_",)


class C01Manager(MG.ManagerStream):
    CLAUSES = ("C01_",)


def streams():
    return [C01Exact(), C01Float(), C01Manager(), C01Reuse()]


ASSUMPTIONS = [
    "Requests with |p| <= 1e-9 W are treated as zero by the code (is_close_to_zero) and are outside the theorems (czero p = false); a total capacity <= 1e-9 makes the code raise ValueError (model: None) and is outside the oracle's domain.",
    "C01_remainder's lower half carries the explicit slack remainder_slack = n*eps + 2*rel_tol*(pool inclusion bound) forced by the code's own tolerances (eps translated from /repo, rel_tol = math.isclose's default 1e-9, n = number of battery groups); the upper half, C01_sum and C01_sign are exact.",
    "pow(available_soc, exponent) enters the model as an arbitrary function argument (C01_remainder: non-negative on non-negative arguments); component ids are assumed pairwise distinct (dicts keyed by id / frozenset of ids are positional lists in the model).",
    "The admission condition is defined inside this area as the pool's advertised exclusion bounds (per group max(battery excl, sum inverter excl), summed), the formula of PowerBoundsCalculator; BatteryManager._get_bounds/_check_request enforce the weaker max(sum bat, sum inv) (C17). Requests between the two are generated for the correspondence (label request_between_enforced_and_advertised_excl) but are outside the oracle's domain.",
]

META = {
    "technique": "Coq proofs over an executable Q model of BatteryDistributionAlgorithm (bookkeeping invariants of reservation / deficit covering / greedy top-up / guarded inverter split by induction over the component lists; fuel-sufficiency of the covering loop; permutation lemmas for the sorts; sign flip for supply) + T-tie of the zero tolerance + differential correspondence: the real distribute_power run on exact rationals (duck-typed records, lib.exact.X) vs the model evaluated inside Coq by vm_compute + float run vs exact run + property oracle on the implementation's output",
    "level_text": "Machine-checked, closed under the global context, no run-time hypotheses: C01_manager_conserves (for every request the modelled BatteryManager serves: set_power calls + excess == request, succeeded power == sum of the calls), C01_reported_is_commanded_under_faults (per-inverter set_power outcome accepted / OperationOutOfRange / other ApiClientError / timeout: succeeded power == sum of the ACCEPTED set-points, failed power == sum of the rejected ones, succeeded + failed + excess == request; result accounting = model/Accounting.v of C15, imported read-only), C01_sum (set-points + remainder == request exactly in Q, for EVERY data set and every pow function), C01_reported_is_commanded (request - remainder == sum of set-points, the BatteryManager step), C01_sign (every set-point has the request's sign or is zero: exact, for all well-formed data), C01_remainder (|remainder| <= |request| exactly and sgn*remainder >= -(n*eps + 2*rel_tol*pool inclusion bound) for every admitted request, with or without deficits), C01_left_over_bound (request - assigned >= -n*eps before the greedy top-up). The model is tied to /repo by running the real algorithm and the model on the same generated configurations (1-4 groups x 1-3 batteries x 1-3 inverters, SoC at/over limits, zero exclusion bounds, zero inclusion bounds, equal sort keys, requests at the advertised exclusion bound / inclusion bound / midpoints / beyond / between the enforced and the advertised exclusion bound, exponents 0-3 exact, non-integer exponents on floats) and comparing exactly; the clauses are also judged directly on the implementation's output.",
    "level_note": "Reuse stream: sequences of distribute_power calls on ONE list of InvBatPair and one algorithm instance whose AggregatedBatteryData / inverter objects are mutated in place between the calls (soc, soc limits, capacity, power bounds, inverter bounds); every call is judged against, and compared with the model on, the CURRENT field values. Manager stream (a third of it built through the real BatteryManager.__init__ + start()/_create_channels on real channels and LatestValueCache objects, ids whose set order differs from sorted order; fake API with per-inverter faults, acknowledge latencies below and above an api_power_request_timeout drawn from {0.25, 0.5, 1.5, 2, 5} s (accepted = not rejected and acknowledged before the time-out), pairs of requests for disjoint battery sets in flight together on one manager (each Result judged against its own set_power calls), and a caller mutating the Request object in flight): the real BatteryManager (__new__ + injected maps, mutable fake caches, fake API client recording set_power) is driven through distribute_power over sequences of battery / inverter data updates (one side only, both, equal timestamps) and requests of both signs inside and beyond the inclusion bounds in both adjust_power modes; the C01/C02 clauses are judged on the recorded set_power calls and the Result against the LATEST data, and model/DistMgr.v (enforced bounds check + algorithm + subtraction + Accounting.bat_result under the per-inverter outcome vector, set order recorded from the run) is compared exactly per request; about a third of the requests carry API faults (pure out-of-range rejections, one inverter of a multi-inverter set failing, mixed errors, timeouts on virtual time) and the clause reported-as-set (succeeded == accepted set-points, failed == rejected set-points, kind Success iff nothing was rejected) is judged on the recorded calls. Full (no _partial theorem left). Slack: only the lower half of the remainder clause, explicit in the theorem and below a microwatt for realistic pools. Trusted: Coq kernel + vm_compute, tools/translate.py (eps), the harness (generator coverage bounds the tie), lib.exact.X, the source-line tracer used only for statistics. math.isclose / is_close_to_zero are modelled as exact rational threshold tests; generated data stay away from the thresholds except where intended. The unchanged tree violated C01 (findings F1, F2: fixed by commits c773a4e, fcfd05e; witnesses in corpus/C01).",
}
