"""C01 — battery power distribution conserves the requested power."""
from __future__ import annotations

from harness import dist as D

ID = "C01"
PROPS = "props/C01.v"


class C01Exact(D.DistStream):
    CLAUSES = ("C01_",)


class C01Float(D.FloatStream):
    CLAUSES = ("C01_",)


def streams():
    return [C01Exact(), C01Float()]


META = {
    "technique": "Coq proof over an executable Q model of the distribution algorithm (phase-by-phase bookkeeping invariants by induction over the component lists) + differential correspondence of the real distribute_power run on exact rationals vs the model evaluated in Coq + property oracle on the implementation's output",
    "level_text": "TODO",
    "level_note": "TODO",
}
