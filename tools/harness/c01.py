"""C01 — battery power distribution conserves the requested power."""
from __future__ import annotations

from harness import dist as D

ID = "C01"
PROPS = "props/C01.v"
NEEDS = ["dist_close_to_zero_abs_tol", "dist_manager_exponent"]


class C01Exact(D.DistStream):
    CLAUSES = ("C01_",)


class C01Float(D.FloatStream):
    CLAUSES = ("C01_",)


def streams():
    return [C01Exact(), C01Float()]


ASSUMPTIONS = [
    "C01_sign_partial / C01_remainder_partial carry the hypothesis side_ok (no negative excess after an approximate math.isclose cover; request - assigned >= 0 before the greedy top-up). It is not yet derived from `admitted` inside Coq; every generated in-domain case file requires it to hold on the model (check fails otherwise) and the oracle judges sign/remainder on the implementation directly.",
    "Requests with |p| <= 1e-9 W are treated as zero by the code (is_close_to_zero) and are outside the theorems (czero p = false); a total capacity <= 1e-9 makes the code raise ValueError (model: None) and is outside the oracle's domain.",
    "pow(available_soc, exponent) enters the model as an arbitrary function argument; component ids are assumed pairwise distinct (dicts keyed by id / frozenset of ids are positional lists in the model).",
    "The admission condition is defined inside this area as the pool's advertised exclusion bounds (per group max(battery excl, sum inverter excl), summed), the formula of PowerBoundsCalculator; BatteryManager._get_bounds/_check_request itself belongs to C17.",
]

META = {
    "technique": "Coq proofs over an executable Q model of BatteryDistributionAlgorithm (bookkeeping invariants of greedy top-up and inverter split by induction over the component lists; sign flip for supply) + differential correspondence: the real distribute_power run on exact rationals (duck-typed records, lib.exact.X) vs the model evaluated inside Coq by vm_compute + float run vs exact run + property oracle on the implementation's output",
    "level_text": "Machine-checked, closed under the global context: C01_sum (set-points + remainder == request exactly in Q, for EVERY data set and every pow function, request not treated as zero), C01_reported_is_commanded (request - remainder == sum of set-points, the BatteryManager step), C01_sign_partial and C01_remainder_partial (sign of every set-point; 0 <= sgn*remainder <= |request|) under the explicit run-time hypothesis side_ok; C01_side_ok_when_no_deficit derives side_ok for every run without a deficit entry (no group's proportional share below its minimum power) and every pow function non-negative on non-negative arguments. The model is tied to /repo by running the real algorithm and the model on the same generated configurations (1-4 groups x 1-3 batteries x 1-3 inverters, SoC at/over limits, zero exclusion bounds, zero inclusion bounds, equal sort keys, requests at the advertised exclusion bound / inclusion bound / midpoints / beyond, exponents 0-3 exact, non-integer exponents on floats) and comparing exactly; the three clauses are also judged directly on the implementation's output.",
    "level_note": "Partial: sign/remainder theorems assume side_ok (decidable by evaluation, lower_okb; checked on every in-domain generated case) instead of deriving it from the admission condition in general (derived for deficit-free runs). Missing: with deficits, an uncovered deficit leaves every excess <= 1e-9 but not 0, so request - assigned >= -n*1e-9 only; the general statement needs tolerance-slack versions of the lower-bound lemmas. Trusted: Coq kernel + vm_compute, the harness (generator coverage bounds the tie), lib.exact.X, the source-line tracer used only for statistics. Tolerances 1e-9 (is_close_to_zero, math.isclose) are modelled as exact rational thresholds; generated data stay away from them except where intended. The unchanged tree violated C01 (findings F1, F2: fixed by commits c773a4e, fcfd05e; witnesses in corpus/C01).",
}
