#!/usr/bin/env python3
"""Regenerate MANIFEST.json from the META dict of every tools/harness/cXX.py."""
import ast
import json
import re
from pathlib import Path

ROOT = Path(__file__).resolve().parent.parent
props = [json.loads(l) for l in (ROOT / "properties.jsonl").read_text().splitlines() if l.strip()]
checks, na = [], []
NA_FILE = ROOT / "tools/not_applicable.json"
na_reasons = json.loads(NA_FILE.read_text()) if NA_FILE.exists() else {}
for p in props:
    pid = p["id"]
    f = ROOT / f"tools/harness/{pid.lower()}.py"
    meta = None
    if f.exists():
        tree = ast.parse(f.read_text())
        for n in tree.body:
            if isinstance(n, ast.Assign) and ast.unparse(n.targets[0]) == "META":
                meta = ast.literal_eval(n.value)
    ready = json.loads((ROOT / "tools/ready.json").read_text()) if (ROOT / "tools/ready.json").exists() else None
    if meta is not None and ready is not None and pid not in ready:
        meta = None
    if meta is None:
        na.append({"property_id": pid, "reason": na_reasons.get(pid, "check not built yet in this revision (planned, see DESIGN.md section 8)")})
        continue
    checks.append({
        "property_id": pid,
        "quick_cmd": f"/venv/bin/python tools/check.py {pid} --tier quick",
        "thorough_cmd": f"/venv/bin/python tools/check.py {pid} --tier thorough",
        "evidence_file": f"/verif/evidence/{pid}.json",
        "replay_cmd_template": f"/venv/bin/python tools/check.py {pid} --replay {{path}}",
        "engine": "coq-proof+correspondence",
        "level_claimed": {"category": "proof", "text": meta["level_text"], "design_ref": meta.get("design_ref", f"DESIGN.md §8 {pid}")},
        "level_note": meta["level_note"],
        "technique": meta["technique"],
    })
man = {
    "version": 1,
    "setup_cmd": "/venv/bin/python tools/check.py --setup",
    "hooks": {
        "guard": "FREQUENZ_SDK_VERIF",
        "enable": "no source hooks are needed: the harnesses drive the real classes imported from /repo/src (PYTHONPATH=/repo/src); the guard variable is set by tools/check.py but nothing in /repo reads it",
        "baseline_off_cmd": "cd /repo && /venv/bin/python -m pytest -ra -q -p no:cacheprovider --timeout=900 --continue-on-collection-errors",
        "source_commits": [],
        "add_only": True,
    },
    "engines": [{
        "name": "coq-proof+correspondence", "path": "tools/check.py",
        "serves_properties": [c["property_id"] for c in checks],
        "kind_free_text": "Coq 8.16.1 theorems about executable Gallina models (coq/model, coq/proofs, coq/props); models tied to /repo by tools/translate.py (regenerated coq/gen/Extracted.v) and by differential correspondence (implementation vs model evaluated inside Coq with vm_compute on generated case files)",
    }],
    "checks": checks,
    "not_applicable": na,
    "notes": "See DESIGN.md. Every check: translate -> full .vo build of the property's closure -> Print Assumptions gate -> correspondence (impl vs model in Coq) -> property oracle on the implementation -> verdict/evidence.",
}
(ROOT / "MANIFEST.json").write_text(json.dumps(man, indent=1) + "\n")
print("checks:", [c["property_id"] for c in checks], "not_applicable:", len(na))
