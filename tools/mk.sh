#!/bin/sh
# dev helper: (re)generate _CoqProject/Makefile and build the given .vo targets
cd /verif && /venv/bin/python -c "
import sys; sys.path.insert(0,'tools')
from lib import core
core.translate()
ok,log=core.build(sys.argv[1:] or None); print(log[-6000:]); sys.exit(0 if ok else 1)" "$@"
