#!/usr/bin/env python3
"""Summary numbers over /verif/seeded/*/meta.json (for DESIGN.md section 12)."""
import json, collections
from pathlib import Path
rounds = {range(1, 10): 1, range(11, 20): 2, range(21, 30): 3, range(31, 40): 4, range(41, 50): 5, range(51, 60): 6, range(61, 70): 7, range(71, 80): 8, range(81, 90): 9}
stat = collections.Counter()
per_round = collections.defaultdict(collections.Counter)
lists = collections.defaultdict(list)
for d in sorted(Path("/verif/seeded").iterdir()):
    m = json.loads((d / "meta.json").read_text())
    pid, k = d.name.split("_")
    rnd = next(v for r, v in rounds.items() if int(k) in r)
    ch = m.get("checks", {})
    own = ch.get(pid, {})
    if own.get("detected") and own.get("with_failing_input"):
        cls = "own_input"
    elif own.get("detected"):
        cls = "own_tie_only"
    elif any(v.get("detected") for v in ch.values()):
        cls = "sibling_only"
    else:
        cls = "undetected"
    first_missed = bool(m.get("earlier_runs")) and not any(v.get("detected") for v in m["earlier_runs"][0].values())
    own_first_missed = bool(m.get("earlier_runs")) and not m["earlier_runs"][0].get(pid, {}).get("detected", True)
    stat[cls] += 1
    per_round[rnd][cls] += 1
    per_round[rnd]["n"] += 1
    if own_first_missed:
        per_round[rnd]["own_first_missed"] += 1
        lists["own_first_missed"].append(d.name)
    if m.get("applies_at_head") is False:
        stat["superseded"] += 1
        lists["superseded"].append(d.name)
    if cls != "own_input":
        lists[cls].append(d.name + ("→" + ",".join(k2 for k2, v in ch.items() if v.get("detected")) if cls == "sibling_only" else ""))
print("total", sum(per_round[r]["n"] for r in per_round), dict(stat))
for r in sorted(per_round):
    print("round", r, dict(per_round[r]))
for k, v in lists.items():
    print(k, v)
