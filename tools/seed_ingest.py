#!/usr/bin/env python3
"""Confirm a seeded change (patch applies, pinned tests pass with it, demo fails with it and passes
without it), run the registered checks against it, and store it under /verif/seeded/<name>/.
usage: seed_ingest.py <ID> <k> [extra check ids...]   (reads /tmp/seed_out/<ID>/patch<k>.diff etc.)"""
import json, os, shutil, subprocess, sys, time
from pathlib import Path

pid, k = sys.argv[1], sys.argv[2]
extra = sys.argv[3:]
src = Path(f"/tmp/seed_out/{pid}")
patch, demo, meta = src / f"patch{k}.diff", src / f"demo{k}.py", src / f"meta{k}.json"
stored = Path(f"/verif/seeded/{pid}_{k}")
if os.environ.get("SEED_FROM_STORED") and (stored / "patch.diff").exists():
    # re-run of a stored change (the copy under /verif/seeded is the reference)
    patch, demo, meta = stored / "patch.diff", stored / "demo.py", stored / "meta.json"
wt = Path(f"/tmp/seedrun_{pid}_{k}_{os.getpid()}")
def sh(cmd, **kw):
    return subprocess.run(cmd, shell=True, capture_output=True, text=True, **kw)
sh(f"git -C /repo worktree add -q {wt} HEAD")
res = {"property": pid, "k": k}
try:
    env = f"PYTHONPATH={wt}/src PYTHONHASHSEED=0"
    r0 = sh(f"cd {wt} && {env} timeout 600 /venv/bin/python {demo}")
    res["demo_without_patch_exit"] = r0.returncode
    a = sh(f"git -C {wt} apply {patch}")
    res["patch_applies"] = a.returncode == 0
    if a.returncode != 0:
        # a later fix: commit moved the context: try a 3-way merge and keep the rebased patch if it is conflict-free
        sh(f"git -C {wt} checkout -q -- . && git -C {wt} clean -fdq")
        a3 = sh(f"git -C {wt} apply --3way {patch}")
        if a3.returncode != 0 or "with conflicts" in (a3.stderr + a3.stdout):
            print("patch does not apply:", a.stderr); sys.exit(2)
        rebased = Path(f"/tmp/rebased_{pid}_{k}_{os.getpid()}.diff")
        rebased.write_text(sh(f"git -C {wt} diff HEAD -- src").stdout)
        sh(f"git -C {wt} reset -q")
        res["patch_applies"] = True
        res["rebased_onto"] = sh("git -C /repo rev-parse --short HEAD").stdout.strip()
        patch = rebased
    r1 = sh(f"cd {wt} && {env} timeout 600 /venv/bin/python {demo}")
    res["demo_with_patch_exit"] = r1.returncode
    res["demo_with_patch_output"] = (r1.stdout + r1.stderr)[-600:]
    t = sh(f"cd {wt} && PYTHONPATH={wt}/src timeout 1500 /venv/bin/python -m pytest -q -p no:cacheprovider --timeout=900 -n 6 tests 2>&1 | tail -1")
    res["tests_with_patch"] = t.stdout.strip()
    if "failed" in res["tests_with_patch"]:
        # tests/actor/test_actor.py::test_does_not_restart_on_normal_exit is flaky under xdist on a loaded
        # machine (also on the unchanged tree): re-run once before judging
        t = sh(f"cd {wt} && PYTHONPATH={wt}/src timeout 1500 /venv/bin/python -m pytest -q -p no:cacheprovider --timeout=900 -n 4 tests 2>&1 | tail -1")
        res["tests_with_patch_first_run"] = res["tests_with_patch"]
        res["tests_with_patch"] = t.stdout.strip()
    checks = {}
    for cid in [pid] + extra:
        t0 = time.time()
        c = sh(f"cd /verif && VERIF_REPO={wt} /venv/bin/python tools/check.py {cid} 2>&1 | grep -E '^(VIOLATION|KNOWN-FINDING|OK)' | head -8")
        lines = c.stdout.strip().splitlines()
        viol = [l for l in lines if l.startswith("VIOLATION")]
        checks[cid] = {"detected": bool(viol), "with_failing_input": any("no-failing-input-found" not in l for l in viol),
                       "lines": lines[:6], "wall_s": round(time.time() - t0, 1)}
        # keep one replay as illustration
        for l in viol[:1]:
            rp = l.split("replay=")[1].split()[0]
            if Path(rp).exists():
                res.setdefault("replay_samples", {})[cid] = json.loads(Path(rp).read_text()).get("what")
    res["checks"] = checks
finally:
    sh(f"git -C /repo worktree remove --force {wt}")
    import hashlib
    sh("rm -rf /verif/.build/coq_" + hashlib.sha1(str(wt.resolve()).encode()).hexdigest()[:10])
if "passed" not in res.get("tests_with_patch", "") or "failed" in res.get("tests_with_patch", ""):
    res["tests_note"] = "pytest under xdist on a loaded machine can be flaky; re-run"
ok = res.get("demo_without_patch_exit") == 0 and res.get("demo_with_patch_exit") == 1 and "passed" in res.get("tests_with_patch", "") and "failed" not in res.get("tests_with_patch", "")
res["confirmed"] = ok
print(json.dumps(res, indent=1))
if ok:
    out = Path(f"/verif/seeded/{pid}_{k}")
    out.mkdir(parents=True, exist_ok=True)
    if patch.parent != out:
        shutil.copy(patch, out / "patch.diff")
    if demo.parent != out:
        shutil.copy(demo, out / "demo.py")
    prev = json.loads((out / "meta.json").read_text()) if (out / "meta.json").exists() else None
    m = dict(prev) if prev is not None else {}
    if meta.exists() and meta.parent != out:
        m.update(json.loads(meta.read_text()))
    if prev is not None and prev.get("checks") != res["checks"]:
        m["earlier_runs"] = prev.get("earlier_runs", []) + [prev.get("checks")]
    if res.get("rebased_onto"):
        m["rebased_onto"] = res["rebased_onto"]
    m.update({"breaks_property": pid, "what_i_ran": [
        "git worktree of /repo HEAD under /tmp; demo without patch (exit 0 expected)", "git apply patch.diff",
        "demo with patch (exit 1 expected)", "pinned test suite with PYTHONPATH=<worktree>/src",
        "VERIF_REPO=<worktree> /venv/bin/python tools/check.py <ID> for each check listed"],
        "confirmation": {key: res[key] for key in ("demo_without_patch_exit", "demo_with_patch_exit", "tests_with_patch")},
        "checks": res["checks"], "replay_samples": res.get("replay_samples", {})})
    (out / "meta.json").write_text(json.dumps(m, indent=1))
