#!/usr/bin/env python3
"""Condensed markdown table of /verif/seeded/*/meta.json and injection into DESIGN.md."""
import json, re, sys
from pathlib import Path
rows = []
for d in sorted(Path("/verif/seeded").iterdir()):
    m = json.loads((d / "meta.json").read_text())
    patch = (d / "patch.diff").read_text()
    files = sorted({Path(f).name for f in re.findall(r"^\+\+\+ b/(\S+)", patch, flags=re.M)})
    funcs = sorted({x.strip().split("(")[0].replace("def ", "").replace("async ", "").replace("class ", "")
                    for x in re.findall(r"^@@.*@@\s*(.*)$", patch, flags=re.M) if x.strip()})
    det = []
    for cid, c in m.get("checks", {}).items():
        if c["detected"]:
            det.append(f"**{cid}** " + ("failing input" if c["with_failing_input"] else "tie only"))
        else:
            det.append(f"{cid} –")
    hist = ""
    if m.get("earlier_runs"):
        first = m["earlier_runs"][0]
        missed = [k for k, v in first.items() if not v.get("detected")]
        if missed and any(m["checks"].get(k, {}).get("detected") for k in missed):
            hist = " (first run: " + ", ".join(missed) + " missed; check strengthened)"
    needs = (m.get("needs") or "").replace("\n", " ").replace("|", "/")
    needs = needs[:140] + ("…" if len(needs) > 140 else "")
    if m.get("neutralised_by"):
        hist += f" (no longer a defect after `{m['neutralised_by']}`: the demonstration passes on HEAD + patch)"
    if m.get("applies_at_head") is False:
        hist += f" (applies to the tree before `{m.get('superseded_by', 'a later fix: commit')}`; result of the last run on that tree)"
    rows.append(f"| `{d.name}` | {', '.join(files)}: {', '.join(funcs)[:80]} | {needs} | {'; '.join(det)}{hist} |")
table = ("| seeded change | site | needs to manifest | checks run against it |\n|---|---|---|---|\n" + "\n".join(rows))
if "--inject" in sys.argv:
    p = Path("/verif/DESIGN.md")
    s = p.read_text()
    a, b = s.index("<!-- SEEDED-TABLE-BEGIN -->"), s.index("<!-- SEEDED-TABLE-END -->")
    p.write_text(s[:a] + "<!-- SEEDED-TABLE-BEGIN -->\n" + table + "\n" + s[b:])
else:
    print(table)
