#!/usr/bin/env python3
"""T-tie: fail-closed translator from a white-list of /repo Python items to Gallina.

Regenerates coq/gen/Extracted.v from /repo's *working tree* on every run.  The
supported Python subset is deliberately small; anything outside it makes the
translation of that one item fail (the item is then missing from Extracted.v, the
models/proofs that import it stop compiling, and the check that depends on it
reports the broken obligation).

Supported: module/class constants (ints, floats -> Q, timedelta -> microseconds,
dict/set literals of strings/ints), and `def`s made of
  if/elif/else, return, simple and tuple assignment, `match` on tuples of boolean
  literals, chained comparisons, and/or/not, `is None`/`is not None` (by case split
  on option-typed parameters), max/min, + - *, attribute access `.lower/.upper` on
  Bounds values, calls to other translated functions, `Power.zero()`,
  `x.isclose(Power.zero())` (rel_tol 1e-9, abs_tol 0 => exact equality with 0).
"""
from __future__ import annotations

import ast
import json
import os
import sys
from fractions import Fraction
from pathlib import Path

REPO = Path(os.environ.get("VERIF_REPO", "/repo"))
SRC = REPO / "src/frequenz/sdk"
OUT = Path(os.environ.get("VERIF_COQ_DIR", str(Path(__file__).resolve().parent.parent / "coq"))) / "gen/Extracted.v"


class Unsupported(Exception):
    pass


def fail(node, msg):
    raise Unsupported(f"line {getattr(node, 'lineno', '?')}: {msg}")


# ----------------------------------------------------------------------------- types
def parse_type(node) -> str:
    """Python annotation -> model type name: Z, bool, bounds, option X, tuple."""
    if node is None:
        fail(node, "missing annotation")
    if isinstance(node, ast.Constant) and isinstance(node.value, str):
        node = ast.parse(node.value, mode="eval").body
    if isinstance(node, ast.Constant) and node.value is None:
        return "none"
    if isinstance(node, ast.Name):
        if node.id in ("Power", "int", "float", "Quantity", "timedelta", "datetime"):
            return "Z"
        if node.id == "bool":
            return "bool"
        fail(node, f"unknown type {node.id}")
    if isinstance(node, ast.BinOp) and isinstance(node.op, ast.BitOr):
        l, r = parse_type(node.left), parse_type(node.right)
        if r == "none":
            return f"option {l}"
        if l == "none":
            return f"option {r}"
        fail(node, "unsupported union")
    if isinstance(node, ast.Subscript):
        base = node.value
        if isinstance(base, ast.Name) and base.id == "Bounds":
            return "bounds"
        if isinstance(base, ast.Name) and base.id == "tuple":
            elts = node.slice.elts if isinstance(node.slice, ast.Tuple) else [node.slice]
            return "tuple(" + ",".join(parse_type(e) for e in elts) + ")"
        fail(node, "unsupported generic")
    if isinstance(node, ast.Attribute):
        return parse_type(ast.Name(id=node.attr))
    fail(node, f"unsupported annotation {ast.dump(node)}")


def coq_type(t: str) -> str:
    if t == "Z":
        return "Z"
    if t == "bool":
        return "bool"
    if t == "bounds":
        return "(Z * Z)"
    if t.startswith("option "):
        return f"(option {coq_type(t[7:])})"
    if t.startswith("tuple("):
        inner = split_top(t[6:-1])
        return "(" + " * ".join(coq_type(x) for x in inner) + ")"
    raise Unsupported(f"type {t}")


def split_top(s: str) -> list[str]:
    out, depth, cur = [], 0, ""
    for ch in s:
        if ch == "(":
            depth += 1
        if ch == ")":
            depth -= 1
        if ch == "," and depth == 0:
            out.append(cur)
            cur = ""
        else:
            cur += ch
    out.append(cur)
    return out


# ----------------------------------------------------------------------- function translator
class FunTr:
    def __init__(self, fn: ast.FunctionDef, sigs: dict, self_fields: dict | None = None, spec: dict | None = None):
        self.fn = fn
        self.sigs = sigs  # name -> (param types, return type)
        self.self_fields = self_fields or {}
        # optional per-item extensions (white-list spec), all off by default:
        #   "params": [[name, type], ...]  extra parameters standing for the method's environment
        #   "subst":  {python expression text: parameter name}  e.g. {"datetime.now(timezone.utc)": "now"}
        #   "z_truthiness": true  -> an int/timedelta used as a condition means `!= 0`
        spec = spec or {}
        self.extra_params = [(n, t) for n, t in spec.get("params", [])]
        self.subst = dict(spec.get("subst", {}))
        self.z_truth = bool(spec.get("z_truthiness", False))

    def translate(self) -> tuple[str, list[str], str]:
        fn = self.fn
        params = []
        env = {}
        for a in fn.args.args:
            if a.arg == "self":
                continue
            t = parse_type(a.annotation)
            params.append((a.arg, t))
            env[a.arg] = {"type": t, "status": "opt" if t.startswith("option ") else "plain"}
        if fn.args.vararg or fn.args.kwarg or fn.args.kwonlyargs:
            fail(fn, "unsupported parameter kinds")
        for n, t in self.extra_params:
            params.append((n, t))
            env[n] = {"type": t, "status": "opt" if t.startswith("option ") else "plain"}
        ret = parse_type(fn.returns)
        body = [s for s in fn.body if not (isinstance(s, ast.Expr) and isinstance(s.value, ast.Constant))]
        expr = self.block(body, env, ret)
        head = " ".join(f"({n} : {coq_type(t)})" for n, t in params)
        return f"Definition {fn.name} {head} : {coq_type(ret)} :=\n{expr}.", [t for _, t in params], ret

    # -- statements, continuation-duplicating
    def block(self, stmts, env, ret, ind=1) -> str:
        pad = "  " * ind
        if not stmts:
            raise Unsupported(f"{self.fn.name}: control falls off the end of the function")
        s, rest = stmts[0], stmts[1:]
        if isinstance(s, ast.Return):
            if s.value is None:
                fail(s, "bare return")
            return pad + self.expr(s.value, env, want=ret)
        if isinstance(s, ast.Expr) and isinstance(s.value, ast.Constant):
            return self.block(rest, env, ret, ind)
        if isinstance(s, ast.Assign):
            if len(s.targets) != 1:
                fail(s, "multi-target assignment")
            tgt = s.targets[0]
            if isinstance(tgt, ast.Name):
                prev = env.get(tgt.id, {}).get("type", "")   # rebinding an option-typed variable: `x = None` is typed by it
                v, t = self.expr_t(s.value, env, prev if prev.startswith("option ") else None)
                env2 = dict(env)
                env2[tgt.id] = {"type": t, "status": "opt" if t.startswith("option ") else "plain"}
                return f"{pad}let {tgt.id} := {v} in\n" + self.block(rest, env2, ret, ind)
            if isinstance(tgt, ast.Tuple) and all(isinstance(e, ast.Name) for e in tgt.elts):
                v, t = self.expr_t(s.value, env)
                if not t.startswith("tuple("):
                    fail(s, "tuple assignment from non-tuple")
                ts = split_top(t[6:-1])
                if len(ts) != len(tgt.elts):
                    fail(s, "tuple arity")
                env2 = dict(env)
                for e, et in zip(tgt.elts, ts):
                    env2[e.id] = {"type": et, "status": "opt" if et.startswith("option ") else "plain"}
                names = ", ".join(e.id for e in tgt.elts)
                return f"{pad}let '({names}) := {v} in\n" + self.block(rest, env2, ret, ind)
            fail(s, "unsupported assignment target")
        if isinstance(s, ast.AugAssign) and isinstance(s.target, ast.Name):
            # `x op= e` is `x = x op e`
            s2 = ast.copy_location(ast.Assign(targets=[ast.Name(id=s.target.id, ctx=ast.Store())],
                                              value=ast.BinOp(left=ast.Name(id=s.target.id, ctx=ast.Load()), op=s.op, right=s.value)), s)
            ast.fix_missing_locations(s2)
            return self.block([s2] + rest, env, ret, ind)
        if isinstance(s, ast.If):
            conj = self.conjuncts(s.test)
            return self.if_(conj, s.body, s.orelse, rest, env, ret, ind)
        if isinstance(s, ast.Match):
            return self.match_(s, rest, env, ret, ind)
        fail(s, f"unsupported statement {type(s).__name__}")

    def conjuncts(self, test):
        if isinstance(test, ast.BoolOp) and isinstance(test.op, ast.And):
            out = []
            for v in test.values:
                out += self.conjuncts(v)
            return out
        return [test]

    def none_test(self, c, env):
        """Return (var, is_none_test) if c is `x is None` / `x is not None` on an option var."""
        if isinstance(c, ast.Compare) and len(c.ops) == 1 and isinstance(c.ops[0], (ast.Is, ast.IsNot)):
            if isinstance(c.comparators[0], ast.Constant) and c.comparators[0].value is None:
                if isinstance(c.left, ast.Name) and c.left.id in env and env[c.left.id]["type"].startswith("option "):
                    return c.left.id, isinstance(c.ops[0], ast.Is)
                fail(c, "`is None` on something that is not an option-typed variable")
        return None

    def if_(self, conj, body, orelse, rest, env, ret, ind) -> str:
        pad = "  " * ind
        if not conj:
            return self.block(body + rest, env, ret, ind)
        c, more = conj[0], conj[1:]
        nt = self.none_test(c, env)
        if nt is not None:
            var, is_none = nt
            st = env[var]["status"]
            if st == "opt":
                env_s = dict(env)
                env_s[var] = {"type": env[var]["type"], "status": "some"}
                env_n = dict(env)
                env_n[var] = {"type": env[var]["type"], "status": "none"}
                if is_none:
                    br_none = self.if_(more, body, orelse, rest, env_n, ret, ind + 1)
                    br_some = self.block(orelse + rest, env_s, ret, ind + 1)
                else:
                    br_some = self.if_(more, body, orelse, rest, env_s, ret, ind + 1)
                    br_none = self.block(orelse + rest, env_n, ret, ind + 1)
                return (f"{pad}match {var} with\n{pad}| None =>\n{br_none}\n"
                        f"{pad}| Some {var} =>\n{br_some}\n{pad}end")
            truth = (st == "none") == is_none
            if truth:
                return self.if_(more, body, orelse, rest, env, ret, ind)
            return self.block(orelse + rest, env, ret, ind)
        cond = self.expr(c, env, want="bool")
        then = self.if_(more, body, orelse, rest, env, ret, ind + 1)
        els = self.block(orelse + rest, env, ret, ind + 1)
        return f"{pad}if {cond} then\n{then}\n{pad}else\n{els}"

    def match_(self, s: ast.Match, rest, env, ret, ind) -> str:
        pad = "  " * ind
        subj, t = self.expr_t(s.subject, env)
        if not t.startswith("tuple("):
            fail(s, "match on non-tuple")
        ts = split_top(t[6:-1])
        if any(x != "bool" for x in ts):
            fail(s, "match only supported on tuples of bool")
        n = len(ts)
        arms, covered = [], set()
        for case in s.cases:
            if case.guard is not None:
                fail(case, "match guard")
            p = case.pattern
            if isinstance(p, ast.MatchAs) and p.pattern is None and p.name is None:
                pats = [None] * n
            elif isinstance(p, ast.MatchSequence) and len(p.patterns) == n:
                pats = []
                for q in p.patterns:
                    if isinstance(q, ast.MatchSingleton) and isinstance(q.value, bool):
                        pats.append(q.value)
                    elif isinstance(q, ast.MatchValue) and isinstance(q.value, ast.Constant) and isinstance(q.value.value, bool):
                        pats.append(q.value.value)
                    elif isinstance(q, ast.MatchAs) and q.pattern is None and q.name is None:
                        pats.append(None)
                    else:
                        fail(case, "unsupported pattern")
            else:
                fail(case, "unsupported pattern")
            combos = {tuple(bool(int(b)) for b in format(i, f"0{n}b")) for i in range(2 ** n)}
            hit = {c for c in combos if all(pv is None or pv == cv for pv, cv in zip(pats, c))}
            new = hit - covered
            if not new:
                continue  # unreachable arm
            covered |= hit
            ptxt = "(" + ", ".join("_" if pv is None else str(pv).lower() for pv in pats) + ")"
            arms.append(f"{pad}| {ptxt} =>\n" + self.block(case.body + rest, env, ret, ind + 1))
        if len(covered) < 2 ** n:
            arms.append(f"{pad}| _ =>\n" + self.block(rest, env, ret, ind + 1))
        return f"{pad}match {subj} with\n" + "\n".join(arms) + f"\n{pad}end"

    # -- expressions
    def expr(self, e, env, want=None) -> str:
        v, t = self.expr_t(e, env, want)
        if want is not None and t != want:
            # lifting a plain value into an option
            if want.startswith("option ") and t == want[7:]:
                return f"(Some {v})"
            if want.startswith("tuple(") and t.startswith("tuple("):
                return v  # element-wise lifting was done in expr_t with `want`
            if want == "bool" and t == "Z" and self.z_truth:
                return f"(negb ({v} =? 0))"
            raise Unsupported(f"{self.fn.name}: line {getattr(e, 'lineno', '?')}: type {t} where {want} expected")
        return v

    def expr_t(self, e, env, want=None) -> tuple[str, str]:
        if self.subst and not isinstance(e, (ast.Constant, ast.Name)) and ast.unparse(e) in self.subst:
            return self.expr_t(ast.Name(id=self.subst[ast.unparse(e)]), env, want)
        if isinstance(e, ast.Constant):
            if e.value is True:
                return "true", "bool"
            if e.value is False:
                return "false", "bool"
            if e.value is None:
                if want and want.startswith("option "):
                    return "None", want
                fail(e, "None without an option context")
            if isinstance(e.value, int):
                return f"({e.value})", "Z"
            fail(e, f"constant {e.value!r}")
        if isinstance(e, ast.Name):
            if e.id not in env:
                fail(e, f"unknown name {e.id}")
            info = env[e.id]
            t = info["type"]
            if info["status"] == "some":
                if want == t:
                    return f"(Some {e.id})", t
                return e.id, t[7:]
            if info["status"] == "none":
                return "None", t
            return e.id, t
        if isinstance(e, ast.Tuple):
            wants = split_top(want[6:-1]) if want and want.startswith("tuple(") else [None] * len(e.elts)
            parts = [self.expr_t(x, env, w) for x, w in zip(e.elts, wants)]
            vs = []
            for (v, t), w in zip(parts, wants):
                if w is not None and t != w:
                    if w.startswith("option ") and t == w[7:]:
                        v, t = f"(Some {v})", w
                    else:
                        fail(e, f"tuple element type {t} where {w} expected")
                vs.append((v, t))
            return "(" + ", ".join(v for v, _ in vs) + ")", "tuple(" + ",".join(t for _, t in vs) + ")"
        if isinstance(e, ast.Attribute):
            if isinstance(e.value, ast.Name) and e.value.id == "self" and e.attr in self.self_fields:
                return self.self_fields[e.attr]
            v, t = self.expr_t(e.value, env)
            if t == "bounds" and e.attr in ("lower", "upper"):
                return (f"(fst {v})" if e.attr == "lower" else f"(snd {v})"), "Z"
            fail(e, f"attribute .{e.attr} on {t}")
        if isinstance(e, ast.Compare):
            ops = {ast.Lt: "<?", ast.LtE: "<=?", ast.Gt: ">?", ast.GtE: ">=?", ast.Eq: "=?"}
            items = [e.left] + e.comparators
            vals = [self.expr(x, env, want="Z") for x in items]
            parts = []
            for i, op in enumerate(e.ops):
                if isinstance(op, ast.NotEq):
                    parts.append(f"(negb ({vals[i]} =? {vals[i + 1]}))")
                elif type(op) in ops:
                    parts.append(f"({vals[i]} {ops[type(op)]} {vals[i + 1]})")
                else:
                    fail(e, f"comparison {type(op).__name__}")
            return ("(" + " && ".join(parts) + ")" if len(parts) > 1 else parts[0]), "bool"
        if isinstance(e, ast.BoolOp):
            op = "&&" if isinstance(e.op, ast.And) else "||"
            return "(" + f" {op} ".join(self.expr(v, env, want="bool") for v in e.values) + ")", "bool"
        if isinstance(e, ast.UnaryOp):
            if isinstance(e.op, ast.Not):
                return f"(negb {self.expr(e.operand, env, want='bool')})", "bool"
            if isinstance(e.op, ast.USub):
                return f"(- {self.expr(e.operand, env, want='Z')})", "Z"
            fail(e, "unary op")
        if isinstance(e, ast.BinOp):
            ops = {ast.Add: "+", ast.Sub: "-", ast.Mult: "*", ast.FloorDiv: "/", ast.Mod: "mod"}
            if type(e.op) not in ops:
                fail(e, f"binary op {type(e.op).__name__}")
            return f"({self.expr(e.left, env, want='Z')} {ops[type(e.op)]} {self.expr(e.right, env, want='Z')})", "Z"
        if isinstance(e, ast.IfExp):
            c = self.expr(e.test, env, want="bool")
            a, ta = self.expr_t(e.body, env, want)
            b = self.expr(e.orelse, env, want=ta)
            return f"(if {c} then {a} else {b})", ta
        if isinstance(e, ast.Call):
            f = e.func
            if e.keywords:
                fail(e, "keyword arguments")
            # Power.zero()
            if isinstance(f, ast.Attribute) and isinstance(f.value, ast.Name) and f.value.id == "Power" and f.attr == "zero" and not e.args:
                return "0", "Z"
            # x.isclose(Power.zero())  (rel_tol=1e-9, abs_tol=0.0: true iff x == 0)
            if isinstance(f, ast.Attribute) and f.attr == "isclose" and len(e.args) == 1:
                a, _ = self.expr_t(e.args[0], env)
                if a != "0":
                    fail(e, "isclose only supported against Power.zero()")
                return f"({self.expr(f.value, env, want='Z')} =? 0)", "bool"
            # timedelta(0): the zero duration
            if isinstance(f, ast.Name) and f.id == "timedelta" and len(e.args) == 1 \
                    and isinstance(e.args[0], ast.Constant) and e.args[0].value == 0 and not isinstance(e.args[0].value, bool):
                return "0", "Z"
            # divmod(a, b) on ints / timedeltas: floor quotient and remainder
            if isinstance(f, ast.Name) and f.id == "divmod" and len(e.args) == 2:
                a = self.expr(e.args[0], env, want="Z")
                b = self.expr(e.args[1], env, want="Z")
                return f"(({a} / {b}), ({a} mod {b}))", "tuple(Z,Z)"
            if isinstance(f, ast.Name) and f.id in ("max", "min") and len(e.args) == 2:
                a = self.expr(e.args[0], env, want="Z")
                b = self.expr(e.args[1], env, want="Z")
                return f"(Z.{f.id} {a} {b})", "Z"
            name = f.id if isinstance(f, ast.Name) else (f.attr if isinstance(f, ast.Attribute) else None)
            if name in self.sigs:
                pts, rt = self.sigs[name]
                if len(pts) != len(e.args):
                    fail(e, "arity")
                args = [self.expr(a, env, want=pt) for a, pt in zip(e.args, pts)]
                return f"({name} " + " ".join(args) + ")", rt
            fail(e, f"call to {ast.unparse(f)}")
        fail(e, f"unsupported expression {type(e).__name__}")


# ----------------------------------------------------------------------------- methods
def methodize(fn: ast.FunctionDef, spec: dict) -> tuple[ast.FunctionDef, dict]:
    """Pure-function view of a method of a small mutable class (kind "method").

    spec["fields"] = [[attribute, python annotation], ...]: every `self.<attribute>` read becomes a
    parameter of that name, every store rebinds it; spec["state"] lists the attributes the method
    may assign -- each `return e` becomes `return (e, *state)` (for a `-> None` method just the state,
    also at the end of the body); spec["consts"] = {attribute: int} are attributes that are fixed
    constants.  Anything else touching `self` fails the item (fail-closed)."""
    import copy
    fields = [n for n, _ in spec.get("fields", [])]
    ftypes = dict((n, t) for n, t in spec.get("fields", []))
    state = list(spec.get("state", []))
    consts = spec.get("consts", {})
    rename = spec.get("rename", {})      # {attribute: parameter name}, e.g. {"end": "end_"} (Coq keyword)
    for f in state:
        if f not in fields:
            raise Unsupported(f"state attribute {f} is not a declared field")

    class T(ast.NodeTransformer):
        def visit_Attribute(self, node):
            if not (isinstance(node.value, ast.Name) and node.value.id == "self"):
                self.generic_visit(node)
                return node
            if True:
                if node.attr in fields:
                    if not isinstance(node.ctx, ast.Load) and node.attr not in state:
                        fail(node, f"store to self.{node.attr}, which is not declared as state")
                    return ast.copy_location(ast.Name(id=rename.get(node.attr, node.attr), ctx=node.ctx), node)
                if node.attr in consts and isinstance(node.ctx, ast.Load):
                    return ast.copy_location(ast.Constant(consts[node.attr]), node)
                fail(node, f"self.{node.attr} is not a declared field")
            return node

        def visit_Name(self, node):
            if node.id == "self":
                fail(node, "bare use of self")
            if node.id in fields:
                fail(node, f"local name {node.id} clashes with a field")
            return node

        def visit_Return(self, node):
            self.generic_visit(node)
            if not state:
                return node
            vals = ([node.value] if node.value is not None else []) + [ast.Name(id=f, ctx=ast.Load()) for f in state]
            val = vals[0] if len(vals) == 1 else ast.Tuple(elts=vals, ctx=ast.Load())
            return ast.copy_location(ast.Return(value=val), node)

    fn2 = copy.deepcopy(fn)
    returns_none = isinstance(fn2.returns, ast.Constant) and fn2.returns.value is None
    fn2.args.args = [a for a in fn2.args.args if a.arg != "self"]
    fn2.body = [T().visit(st) for st in fn2.body]
    rets = ([] if returns_none else [ast.unparse(fn.returns)]) + [ftypes[f] for f in state]
    if state:
        if returns_none:
            fn2.body.append(ast.copy_location(ast.Return(value=T().visit_Return(ast.Return(value=None)).value), fn2.body[-1]))
        ann = rets[0] if len(rets) == 1 else "tuple[" + ", ".join(rets) + "]"
        fn2.returns = ast.parse(ann, mode="eval").body
    elif returns_none:
        raise Unsupported("a method that returns nothing and has no state has no meaning")
    ast.fix_missing_locations(fn2)
    params = [[rename.get(n, n), parse_type(ast.parse(t, mode="eval").body)] for n, t in spec.get("fields", [])]
    spec2 = dict(spec)
    spec2["params"] = params + list(spec.get("params", []))
    return fn2, spec2


# ----------------------------------------------------------------------------- float-stack methods
FLOAT_OPS_PREAMBLE = """(* Operations of the number domain the formula steps compute on (kind "stack_method"):
   the translated `apply` bodies are generic in it; proofs instantiate it with the model's values.
   f_div is partial: None = ZeroDivisionError.  Python's builtins on two arguments are spelled out:
   max(a, b) = b if a < b else a;  min(a, b) = b if b < a else a. *)
Record float_ops (V : Type) : Type := mk_float_ops {
  f_add : V -> V -> V;  f_sub : V -> V -> V;  f_mul : V -> V -> V;
  f_div : V -> V -> option V;
  f_neg : V -> V;
  f_lt : V -> V -> bool;  f_eq : V -> V -> bool;
  f_isnan : V -> bool;  f_isinf : V -> bool;
  f_nan : V;
  f_of_int : Z -> V
}.
Arguments f_add {V}. Arguments f_sub {V}. Arguments f_mul {V}. Arguments f_div {V}. Arguments f_neg {V}.
Arguments f_lt {V}. Arguments f_eq {V}. Arguments f_isnan {V}. Arguments f_isinf {V}. Arguments f_nan {V}.
Arguments f_of_int {V}.
"""


class StackTr:
    """kind "stack_method": a method `apply(self, <stack>: list[float]) -> None` of a formula step,
    as a function `float_ops V -> <fields> -> list V -> option (list V)` (None = an exception: pop
    from an empty list, division by zero).  Supported statements: `x = <stack>.pop()`,
    `<stack>.append(e)`, `x = e`, `if c: ... [else: ...]`, docstrings; expressions: names, int
    literals, `math.nan`, unary minus, + - * /, `max(a, b)`, `min(a, b)`, `math.isnan(x)`,
    `math.isinf(x)`, single comparisons, and/or/not, `a if c else b`, `self.<field>` for declared
    fields (spec.fields = {name: "V" | "optV"}) with `self.<f> is [not] None` tests on optV fields."""

    def __init__(self, fn: ast.FunctionDef, spec: dict):
        self.fn = fn
        self.fields = dict(spec.get("fields", {}))
        args = [a.arg for a in fn.args.args if a.arg != "self"]
        if len(args) != 1 or fn.args.vararg or fn.args.kwarg or fn.args.kwonlyargs:
            fail(fn, "a stack method takes exactly the evaluation stack")
        self.stack = args[0]
        if self.stack.startswith("_") or self.stack in self.fields:
            fail(fn, "unsuitable stack parameter name")
        self.n = 0

    def translate(self, coqname: str) -> str:
        env = {f: ("opt" if t == "optV" else "V") for f, t in self.fields.items()}
        for f, t in self.fields.items():
            if t not in ("V", "optV"):
                raise Unsupported(f"field type {t}")
        body = self.block(list(self.fn.body), env, 1)
        params = "".join(f" ({f} : {'option V' if t == 'optV' else 'V'})" for f, t in self.fields.items())
        return (f"Definition {coqname} {{V : Type}} (ops : float_ops V){params} ({self.stack} : list V)"
                f" : option (list V) :=\n{body}.")

    def fresh(self):
        self.n += 1
        return f"tmp{self.n}__"

    def block(self, stmts, env, ind) -> str:
        pad = "  " * ind
        if not stmts:
            return f"{pad}Some {self.stack}"
        s, rest = stmts[0], stmts[1:]
        if isinstance(s, ast.Expr) and isinstance(s.value, ast.Constant) and isinstance(s.value.value, str):
            return self.block(rest, env, ind)
        if isinstance(s, ast.Return) and s.value is None:
            return f"{pad}Some {self.stack}"
        if isinstance(s, ast.Assign) and len(s.targets) == 1 and isinstance(s.targets[0], ast.Name):
            x = s.targets[0].id
            if x == self.stack or x in self.fields or x in ("ops", "V", "Some", "None"):
                fail(s, f"assignment to {x}")
            if self.is_stack_call(s.value, "pop"):
                if s.value.args or s.value.keywords:
                    fail(s, "pop with arguments")
                env2 = dict(env)
                env2[x] = "V"
                return (f"{pad}match {self.stack} with\n{pad}| [] => None\n{pad}| {x} :: {self.stack} =>\n"
                        + self.block(rest, env2, ind + 1) + f"\n{pad}end")
            v, t, partial = self.expr(s.value, env)
            if t != "V":
                fail(s, "only numbers can be assigned")
            env2 = dict(env)
            env2[x] = "V"
            if partial:
                return (f"{pad}match {v} with\n{pad}| None => None\n{pad}| Some {x} =>\n"
                        + self.block(rest, env2, ind + 1) + f"\n{pad}end")
            return f"{pad}let {x} := {v} in\n" + self.block(rest, env2, ind)
        if isinstance(s, ast.Expr) and self.is_stack_call(s.value, "append"):
            if len(s.value.args) != 1 or s.value.keywords:
                fail(s, "append takes one argument")
            v, t, partial = self.expr(s.value.args[0], env)
            if t != "V":
                fail(s, "only numbers can be pushed")
            if partial:
                x = self.fresh()
                return (f"{pad}match {v} with\n{pad}| None => None\n{pad}| Some {x} =>\n{pad}  let {self.stack} := {x} :: {self.stack} in\n"
                        + self.block(rest, env, ind + 1) + f"\n{pad}end")
            return f"{pad}let {self.stack} := {v} :: {self.stack} in\n" + self.block(rest, env, ind)
        if isinstance(s, ast.If):
            nt = self.none_test(s.test, env)
            if nt is not None:
                f, is_none = nt
                env_s = dict(env)
                env_s[f] = "V"
                some_b, none_b = (s.orelse, s.body) if is_none else (s.body, s.orelse)
                return (f"{pad}match {f} with\n{pad}| None =>\n" + self.block(list(none_b) + rest, env, ind + 1)
                        + f"\n{pad}| Some {f} =>\n" + self.block(list(some_b) + rest, env_s, ind + 1) + f"\n{pad}end")
            c, t, partial = self.expr(s.test, env)
            if t != "bool" or partial:
                fail(s, "condition must be a total boolean expression")
            return (f"{pad}if {c} then\n" + self.block(list(s.body) + rest, env, ind + 1)
                    + f"\n{pad}else\n" + self.block(list(s.orelse) + rest, env, ind + 1))
        fail(s, f"unsupported statement {type(s).__name__} in a stack method")

    def is_stack_call(self, e, meth):
        return (isinstance(e, ast.Call) and isinstance(e.func, ast.Attribute) and e.func.attr == meth
                and isinstance(e.func.value, ast.Name) and e.func.value.id == self.stack)

    def field_of(self, e):
        if isinstance(e, ast.Attribute) and isinstance(e.value, ast.Name) and e.value.id == "self":
            if e.attr not in self.fields:
                fail(e, f"self.{e.attr} is not a declared field")
            return e.attr
        return None

    def none_test(self, c, env):
        if isinstance(c, ast.Compare) and len(c.ops) == 1 and isinstance(c.ops[0], (ast.Is, ast.IsNot)) \
                and isinstance(c.comparators[0], ast.Constant) and c.comparators[0].value is None:
            f = self.field_of(c.left)
            if f is None or env.get(f) != "opt":
                fail(c, "`is None` is only supported on an optional field that has not been tested yet")
            return f, isinstance(c.ops[0], ast.Is)
        return None

    def total(self, e, env, want):
        v, t, partial = self.expr(e, env)
        if partial:
            fail(e, "a possibly raising sub-expression is only supported at the top of an assignment, append or conditional expression")
        if t != want:
            fail(e, f"{t} where {want} expected")
        return v

    def expr(self, e, env):
        """-> (coq term, "V" | "bool", partial: the term has type option V)"""
        if isinstance(e, ast.Name):
            if env.get(e.id) != "V":
                fail(e, f"unknown or non-numeric name {e.id}")
            return e.id, "V", False
        f = self.field_of(e)
        if f is not None:
            if env.get(f) != "V":
                fail(e, f"self.{f} may be None here")
            return f, "V", False
        if isinstance(e, ast.Attribute) and isinstance(e.value, ast.Name) and e.value.id == "math" and e.attr == "nan":
            return "(f_nan ops)", "V", False
        if isinstance(e, ast.Constant):
            if isinstance(e.value, bool):
                return str(e.value).lower(), "bool", False
            if isinstance(e.value, int):
                return f"(f_of_int ops ({e.value}))", "V", False
            if isinstance(e.value, float) and e.value == int(e.value):
                return f"(f_of_int ops ({int(e.value)}))", "V", False
            fail(e, f"constant {e.value!r}")
        if isinstance(e, ast.UnaryOp):
            if isinstance(e.op, ast.USub):
                return f"(f_neg ops {self.total(e.operand, env, 'V')})", "V", False
            if isinstance(e.op, ast.Not):
                return f"(negb {self.total(e.operand, env, 'bool')})", "bool", False
            fail(e, "unary operator")
        if isinstance(e, ast.BinOp):
            a, b = self.total(e.left, env, "V"), self.total(e.right, env, "V")
            ops = {ast.Add: "f_add", ast.Sub: "f_sub", ast.Mult: "f_mul"}
            if type(e.op) in ops:
                return f"({ops[type(e.op)]} ops {a} {b})", "V", False
            if isinstance(e.op, ast.Div):
                return f"(f_div ops {a} {b})", "V", True
            fail(e, f"binary operator {type(e.op).__name__}")
        if isinstance(e, ast.BoolOp):
            op = "&&" if isinstance(e.op, ast.And) else "||"
            return "(" + f" {op} ".join(self.total(v, env, "bool") for v in e.values) + ")", "bool", False
        if isinstance(e, ast.Compare):
            if len(e.ops) != 1:
                fail(e, "chained comparison")
            a, b = self.total(e.left, env, "V"), self.total(e.comparators[0], env, "V")
            op = e.ops[0]
            table = {ast.Lt: f"(f_lt ops {a} {b})", ast.Gt: f"(f_lt ops {b} {a})",
                     ast.Eq: f"(f_eq ops {a} {b})", ast.NotEq: f"(negb (f_eq ops {a} {b}))",
                     ast.LtE: f"(f_lt ops {a} {b} || f_eq ops {a} {b})", ast.GtE: f"(f_lt ops {b} {a} || f_eq ops {a} {b})"}
            if type(op) not in table:
                fail(e, f"comparison {type(op).__name__}")
            return table[type(op)], "bool", False
        if isinstance(e, ast.IfExp):
            c = self.total(e.test, env, "bool")
            a, ta, pa = self.expr(e.body, env)
            b, tb, pb = self.expr(e.orelse, env)
            if ta != tb:
                fail(e, "branches of different types")
            if pa or pb:
                a = a if pa else f"(Some {a})"
                b = b if pb else f"(Some {b})"
            return f"(if {c} then {a} else {b})", ta, pa or pb
        if isinstance(e, ast.Call) and not e.keywords:
            fn = ast.unparse(e.func)
            if fn in ("max", "min") and len(e.args) == 2:
                a, b = self.total(e.args[0], env, "V"), self.total(e.args[1], env, "V")
                if fn == "max":
                    return f"(if f_lt ops {a} {b} then {b} else {a})", "V", False
                return f"(if f_lt ops {b} {a} then {b} else {a})", "V", False
            if fn in ("math.isnan", "isnan", "math.isinf", "isinf") and len(e.args) == 1:
                a = self.total(e.args[0], env, "V")
                return f"(f_is{fn[-3:]} ops {a})", "bool", False
        fail(e, f"unsupported expression {ast.unparse(e)} in a stack method")


# ----------------------------------------------------------------------------- constants
def const_value(node) -> tuple[str, str]:
    """Return (coq term, coq type) of a constant expression."""
    if isinstance(node, ast.Constant):
        if isinstance(node.value, bool):
            return str(node.value).lower(), "bool"
        if isinstance(node.value, int):
            return f"({node.value})", "Z"
        if isinstance(node.value, float):
            fr = Fraction(repr(node.value))
            return f"({fr.numerator} # {fr.denominator})", "Q"
        if isinstance(node.value, str):
            return json.dumps(node.value), "string"
    if isinstance(node, ast.UnaryOp) and isinstance(node.op, ast.USub):
        v, t = const_value(node.operand)
        if t == "Z":
            return f"(- {v})", t
    if isinstance(node, ast.Call) and ast.unparse(node.func) in ("timedelta", "datetime.timedelta"):
        us = Fraction(0)
        mult = {"days": 86400 * 10**6, "hours": 3600 * 10**6, "minutes": 60 * 10**6, "seconds": 10**6,
                "milliseconds": 1000, "microseconds": 1}
        if node.args:
            fail(node, "positional timedelta args")
        for kw in node.keywords:
            if kw.arg not in mult or not isinstance(kw.value, ast.Constant):
                fail(node, "timedelta argument")
            us += Fraction(repr(kw.value.value)) * mult[kw.arg]
        if us.denominator != 1:
            fail(node, "timedelta not a whole number of microseconds")
        return f"({us.numerator})", "Z"
    if isinstance(node, ast.Dict):
        items = []
        vt = kt = None
        for k, v in zip(node.keys, node.values):
            kv, kt = const_value(k)
            vv, vt = const_value(v)
            items.append(f"({kv}, {vv})")
        return "[" + "; ".join(items) + "]", f"list ({kt} * {vt})"
    if isinstance(node, ast.Attribute) and isinstance(node.value, ast.Name):
        # enum member `SomeEnum.NAME` -> its member name (a string)
        return json.dumps(node.attr), "string"
    if isinstance(node, ast.Set) and node.elts:
        # set literal of constants of one type -> sorted list (membership is all a set offers)
        items = [const_value(e) for e in node.elts]
        types = {t for _, t in items}
        if len(types) != 1:
            fail(node, "set literal with mixed element types")
        return "[" + "; ".join(sorted(v for v, _ in items)) + "]", f"list {types.pop()}"
    fail(node, f"unsupported constant {ast.unparse(node)}")


# ----------------------------------------------------------------------------- white-list
def find_def(tree, name, cls=None):
    scope = tree.body
    if cls:
        for n in tree.body:
            if isinstance(n, ast.ClassDef) and n.name == cls:
                scope = n.body
                break
        else:
            raise Unsupported(f"class {cls} not found")
    for n in scope:
        if isinstance(n, (ast.FunctionDef, ast.AsyncFunctionDef)) and n.name == name:
            return n
    raise Unsupported(f"def {name} not found")


def find_assign(tree, name, cls=None, func=None):
    scope = tree.body
    if cls:
        scope = next((n.body for n in tree.body if isinstance(n, ast.ClassDef) and n.name == cls), None)
        if scope is None:
            raise Unsupported(f"class {cls} not found")
    if func:
        scope = next((n.body for n in scope if isinstance(n, (ast.FunctionDef, ast.AsyncFunctionDef)) and n.name == func), None)
        if scope is None:
            raise Unsupported(f"def {func} not found")
    for n in ast.walk(ast.Module(body=scope, type_ignores=[])):
        if isinstance(n, ast.Assign) and len(n.targets) == 1 and ast.unparse(n.targets[0]) == name:
            return n.value
        if isinstance(n, ast.AnnAssign) and n.value is not None and ast.unparse(n.target) == name:
            return n.value
    raise Unsupported(f"assignment to {name} not found")


def find_kwarg_default(tree, func, arg, cls=None):
    fn = find_def(tree, func, cls)
    names = [a.arg for a in fn.args.args]
    if arg in names:
        i = names.index(arg) - (len(names) - len(fn.args.defaults))
        if i >= 0:
            return fn.args.defaults[i]
    for a, d in zip(fn.args.kwonlyargs, fn.args.kw_defaults):
        if a.arg == arg and d is not None:
            return d
    raise Unsupported(f"default of {arg} in {func} not found")


def find_call_kwarg(tree, callee, kw, cls=None, func=None, index=0):
    """value of keyword `kw` in the index-th call whose func unparses to `callee`."""
    scope = tree
    if cls or func:
        scope = find_def(tree, func, cls)
    hits = [n for n in ast.walk(scope) if isinstance(n, ast.Call) and ast.unparse(n.func) == callee]
    hits.sort(key=lambda n: (n.lineno, n.col_offset))
    if len(hits) <= index:
        raise Unsupported(f"call to {callee} #{index} not found")
    for k in hits[index].keywords:
        if k.arg == kw:
            return k.value
    raise Unsupported(f"keyword {kw} in call to {callee} not found")


WL_DIR = Path(__file__).resolve().parent / "whitelist"
# One white-list per generated file: tools/whitelist/<Name>.json -> coq/gen/<Name>.v
# entries: [coq name, file relative to src/frequenz/sdk, kind, spec]
#   kind "def"        : translate the function (spec: name?, cls?)
#   kind "method"     : translate a method of a small mutable class as a pure function of its fields
#                       (spec: cls, name, fields, state, consts?, params?, subst?) -- see methodize()
#   kind "stack_method": `apply(self, eval_stack)` of a formula step as a stack transformer over an abstract
#                       number domain (spec: cls, name?="apply", fields?={attr: "V"|"optV"}) -- see StackTr
#   kind "assign"     : constant assigned to spec.name (module level, or in spec.cls / spec.func)
#   kind "default"    : default value of parameter spec.arg of spec.func (spec.cls?)
#   kind "call_kwarg" : keyword spec.kw of the spec.index-th call of spec.callee in spec.cls.spec.func


def run_one(name: str, whitelist: list, out_path: Path) -> dict:
    status = {}
    chunks = []
    sigs = {}
    trees = {}
    for coqname, rel, kind, spec in whitelist:
        path = SRC / rel
        try:
            if rel not in trees:
                trees[rel] = ast.parse(path.read_text())
            tree = trees[rel]
            if kind == "stack_method":
                fn = find_def(tree, spec.get("name", "apply"), spec.get("cls"))
                text = StackTr(fn, spec).translate(coqname)
                if not any(c.startswith("(* Operations of the number domain") for c in chunks):
                    chunks.append(FLOAT_OPS_PREAMBLE)
                chunks.append(f"(* {rel}:{fn.lineno} {spec.get('cls')}.{fn.name} *)\n{text}\n")
            elif kind in ("def", "method"):
                fn = find_def(tree, spec.get("name", coqname), spec.get("cls"))
                spec_fn = spec
                if kind == "method":
                    fn, spec_fn = methodize(fn, spec)
                text, pts, rt = FunTr(fn, sigs, spec=spec_fn).translate()
                if spec.get("name", coqname) != coqname:
                    text = text.replace(f"Definition {fn.name} ", f"Definition {coqname} ", 1)
                sigs[spec.get("name", coqname)] = (pts, rt)
                chunks.append(f"(* {rel}:{fn.lineno} {fn.name} *)\n{text}\n")
            else:
                if kind == "assign":
                    node = find_assign(tree, spec["name"], spec.get("cls"), spec.get("func"))
                elif kind == "default":
                    node = find_kwarg_default(tree, spec["func"], spec["arg"], spec.get("cls"))
                elif kind == "call_kwarg":
                    node = find_call_kwarg(tree, spec["callee"], spec["kw"], spec.get("cls"), spec.get("func"), spec.get("index", 0))
                else:
                    raise Unsupported(f"kind {kind}")
                if kind in ("default", "call_kwarg") and isinstance(node, ast.Name):
                    # the value is the name of a module-level constant: translate what that name is bound to
                    node = find_assign(tree, node.id)
                v, t = const_value(node)
                chunks.append(f"(* {rel}:{node.lineno} *)\nDefinition {coqname} : {t} := {v}.\n")
            status[coqname] = "ok"
        except (Unsupported, SyntaxError, OSError) as exc:
            status[coqname] = f"error: {rel}: {exc}"
            chunks.append(f"(* {coqname}: TRANSLATION FAILED: {rel}: {exc} *)\n")
    text = ("(* GENERATED by tools/translate.py from /repo's working tree -- do not edit. *)\n"
            "From Coq Require Import ZArith QArith List Bool String.\nImport ListNotations.\n"
            "Open Scope string_scope.\nOpen Scope Z_scope.\n\n" + "\n".join(chunks))
    old = out_path.read_text() if out_path.exists() else None
    if old != text:
        out_path.parent.mkdir(parents=True, exist_ok=True)
        out_path.write_text(text)
    return status


def run() -> dict:
    status = {}
    for wl in sorted(WL_DIR.glob("*.json")):
        status.update(run_one(wl.stem, json.loads(wl.read_text()), OUT.parent / f"{wl.stem}.v"))
    return status


if __name__ == "__main__":
    st = run()
    json.dump(st, sys.stdout, indent=1)
    print()
    sys.exit(0 if all(v == "ok" for v in st.values()) else 2)
