#!/usr/bin/env python3
"""For every stored seeded change whose patch no longer applies to /repo's HEAD (not even by a conflict-free 3-way
merge): record the `fix:` commit that superseded it (the first commit after the newest one it still applies to)."""
import json, subprocess, sys
from pathlib import Path
def sh(c): return subprocess.run(c, shell=True, capture_output=True, text=True)
wt = Path("/tmp/seed_sup_wt")
sh(f"git -C /repo worktree remove --force {wt}")
sh(f"git -C /repo worktree add -q --detach {wt} HEAD")
commits = sh("git -C /repo log --format=%h -60").stdout.split()
try:
    for d in sorted(Path("/verif/seeded").iterdir()):
        patch = d / "patch.diff"
        sh(f"git -C {wt} checkout -q --detach {commits[0]}")
        mp = d / "meta.json"
        m = json.loads(mp.read_text())
        if sh(f"git -C {wt} apply --check {patch}").returncode == 0:
            if m.pop("applies_at_head", None) is not None:
                m.pop("superseded_by", None); m.pop("note", None)
                mp.write_text(json.dumps(m, indent=1))
            continue
        sup = None
        for i, c in enumerate(commits[1:], 1):
            sh(f"git -C {wt} checkout -q --detach {c}")
            if sh(f"git -C {wt} apply --check {patch}").returncode == 0:
                sup = commits[i - 1]
                break
        m["applies_at_head"] = False
        m["superseded_by"] = sup or "?"
        m.setdefault("note", f"the patch rewrites code that the later fix: commit {sup} changed; it applies to the tree before that "
                             "commit and the recorded check results are from the last run on that tree")
        mp.write_text(json.dumps(m, indent=1))
        print(d.name, "superseded by", sup)
finally:
    sh(f"git -C /repo worktree remove --force {wt}")
