import asyncio
from types import SimpleNamespace as NS
from frequenz.channels import Broadcast
from frequenz.client.microgrid import Component, ComponentCategory as CC, Connection, InverterType as IT
from frequenz.sdk.microgrid import connection_manager
from frequenz.sdk.microgrid.component_graph import _MicrogridComponentGraph
from frequenz.sdk._internal._channels import ChannelRegistry
from frequenz.sdk.timeseries.formula_engine._formula_generators import (
    ConsumerPowerFormula, ProducerPowerFormula, GridPowerFormula, BatteryPowerFormula, PVPowerFormula, FormulaGeneratorConfig)
def setup(comps, conns):
    g=_MicrogridComponentGraph(set(comps), set(conns))
    g.validate()
    connection_manager._CONNECTION_MANAGER = NS(component_graph=g, api_client=None)
    return g
def gen(cls, cfg=None):
    reg=ChannelRegistry(name="r"); ch=Broadcast(name="req")
    return cls("ns", reg, ch.new_sender(), cfg or FormulaGeneratorConfig()).generate()
async def main():
    comps=[Component(1,CC.GRID), Component(2,CC.METER), Component(3,CC.INVERTER,IT.BATTERY), Component(4,CC.BATTERY), Component(5,CC.INVERTER,IT.SOLAR), Component(6,CC.INVERTER,IT.SOLAR)]
    conns=[Connection(1,2),Connection(2,3),Connection(3,4),Connection(2,5),Connection(1,6)]
    setup(comps,conns)
    for allow in (True, False):
        cfg=lambda **kw: FormulaGeneratorConfig(allow_fallback=allow, **kw)
        print("allow_fallback",allow)
        print(" grid    ", gen(GridPowerFormula,cfg()))
        print(" consumer", gen(ConsumerPowerFormula,cfg()))
        print(" producer", gen(ProducerPowerFormula,cfg()))
        print(" battery ", gen(BatteryPowerFormula,cfg(component_ids={4})))
        print(" pv      ", gen(PVPowerFormula,cfg()))
    print("--- with grid meter, nested mixed meter")
    comps=[Component(1,CC.GRID), Component(2,CC.METER), Component(7,CC.METER), Component(3,CC.INVERTER,IT.BATTERY), Component(4,CC.BATTERY), Component(5,CC.INVERTER,IT.SOLAR)]
    conns=[Connection(1,2),Connection(2,7),Connection(7,3),Connection(3,4),Connection(7,5)]
    setup(comps,conns)
    cfg=lambda **kw: FormulaGeneratorConfig(allow_fallback=False, **kw)
    print(" grid    ", gen(GridPowerFormula,cfg()))
    print(" consumer", gen(ConsumerPowerFormula,cfg()))
    print(" producer", gen(ProducerPowerFormula,cfg()))
    print(" battery ", gen(BatteryPowerFormula,cfg(component_ids={4})))
asyncio.run(main())
