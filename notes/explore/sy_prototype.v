From Coq Require Import QArith ZArith List Bool Lia.
Import ListNotations.
Open Scope Q_scope.

Inductive bop := Add | Sub | Mul | Div.
Definition prec (o : bop) : Z := match o with Add => 8 | Sub => 7 | Mul => 6 | Div => 5 end%Z.
Definition app (o : bop) (a b : Q) : Q :=
  match o with Add => a + b | Sub => a - b | Mul => a * b | Div => a / b end.

(* Semantic shunting yard on a paren-free segment: value stack (top first), op stack (top first). *)
Fixpoint reduce (fuel : nat) (p : Z) (vs : list Q) (os : list bop) : list Q * list bop :=
  match fuel with
  | O => (vs, os)
  | S f =>
    match os, vs with
    | o :: os', b :: a :: vs' =>
      if (p <? prec o)%Z then (vs, os) else reduce f p (app o a b :: vs') os'
    | _, _ => (vs, os)
    end
  end.

Fixpoint collapse (vs : list Q) (os : list bop) : option Q :=
  match os, vs with
  | [], [v] => Some v
  | o :: os', b :: a :: vs' => collapse (app o a b :: vs') os'
  | _, _ => None
  end.

Fixpoint sy (vs : list Q) (os : list bop) (rest : list (bop * Q)) : option Q :=
  match rest with
  | [] => collapse vs os
  | (o, x) :: r =>
    let '(vs', os') := reduce (length os) (prec o) vs os in
    sy (x :: vs') (o :: os') r
  end.

(* Reference: ordinary precedence, left to right. State: S pm (M mo x) *)
Definition appT (M : Q) (mo : option bop) (x : Q) : Q :=
  match mo with None => x | Some o => app o M x end.

Fixpoint std (S : Q) (pm : bop) (T : Q) (rest : list (bop * Q)) : Q :=
  match rest with
  | [] => app pm S T
  | (o, x) :: r =>
    match o with
    | Mul | Div => std S pm (app o T x) r
    | Add | Sub => std (app pm S T) o x r
    end
  end.

(* the meaning of an SY state as a function of the value on top *)
Definition is_pm (o : bop) := match o with Add | Sub => true | _ => false end.


Definition Rel (vs : list Q) (os : list bop) (S : Q) (pm : bop) (T : Q) : Prop :=
  match os, vs with
  | [], [t] => S == 0 /\ pm = Add /\ T == t
  | [Add], [t; a] => S == a /\ pm = Add /\ T == t
  | [Sub], [t; a] => S == a /\ pm = Sub /\ T == t
  | [Sub; Add], [t; b; a] => S == a + b /\ pm = Sub /\ T == t
  | [Mul], [t; a] => S == 0 /\ pm = Add /\ T == a * t
  | [Div], [t; a] => S == 0 /\ pm = Add /\ T == a / t
  | [Div; Mul], [t; b; a] => S == 0 /\ pm = Add /\ T == a * (b / t)
  | [Mul; Add], [t; b; a] => S == a /\ pm = Add /\ T == b * t
  | [Mul; Sub], [t; b; a] => S == a /\ pm = Sub /\ T == b * t
  | [Div; Add], [t; b; a] => S == a /\ pm = Add /\ T == b / t
  | [Div; Sub], [t; b; a] => S == a /\ pm = Sub /\ T == b / t
  | [Mul; Sub; Add], [t; c; b; a] => S == a + b /\ pm = Sub /\ T == c * t
  | [Div; Sub; Add], [t; c; b; a] => S == a + b /\ pm = Sub /\ T == c / t
  | [Div; Mul; Add], [t; c; b; a] => S == a /\ pm = Add /\ T == b * (c / t)
  | [Div; Mul; Sub], [t; c; b; a] => S == a /\ pm = Sub /\ T == b * (c / t)
  | [Div; Mul; Sub; Add], [t; d; c; b; a] => S == a + b /\ pm = Sub /\ T == c * (d / t)
  | _, _ => False
  end.

Lemma app_proper o a a' b b' : a == a' -> b == b' -> app o a b == app o a' b'.
Proof. intros Ha Hb; destruct o; cbn; rewrite Ha, Hb; reflexivity. Qed.

Lemma std_proper rest : forall S S' pm T T', S == S' -> T == T' -> std S pm T rest == std S' pm T' rest.
Proof.
  induction rest as [|[o x] r IH]; intros S S' pm T T' HS HT; cbn.
  - apply app_proper; assumption.
  - destruct o; apply IH; try assumption; try reflexivity; apply app_proper; try assumption; reflexivity.
Qed.

Ltac shape os vs :=
  destruct os as [|[] [|[] [|[] [|[] [|? ?]]]]]; cbn in *; try contradiction;
  destruct vs as [|? [|? [|? [|? [|? [|? ?]]]]]]; cbn in *; try contradiction.

Lemma sy_std rest : forall vs os S pm T, Rel vs os S pm T ->
  exists res, sy vs os rest = Some res /\ res == std S pm T rest.
Proof.
  induction rest as [|[o x] r IH]; intros vs os S pm T HR.
  - (* finalize *)
    shape os vs; destruct HR as (HS & -> & HT); eexists; (split; [reflexivity|]);
    cbn; rewrite HS, HT; unfold Qdiv, Qminus; ring.
  - shape os vs; destruct HR as (HS & -> & HT); destruct o; cbn;
    match goal with
    | |- exists r0, sy ?vs' ?os' r = Some r0 /\ r0 == std ?S' ?pm' ?T' r =>
      let H := fresh in
      assert (H : Rel vs' os' S' pm' T')
        by (cbn; repeat split; try reflexivity; rewrite ?HS, ?HT; unfold Qdiv, Qminus; ring);
      destruct (IH vs' os' S' pm' T' H) as (r0 & Hsy & Heq);
      exists r0; split; [exact Hsy | exact Heq]
    end.
Qed.

Theorem sy_flat_correct v0 rest :
  exists res, sy [v0] [] rest = Some res /\ res == std 0 Add v0 rest.
Proof. apply sy_std; cbn; repeat split; reflexivity. Qed.
Print Assumptions sy_flat_correct.
