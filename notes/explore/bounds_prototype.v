From Coq Require Import ZArith List Bool Lia ZifyBool.
Import ListNotations.
Open Scope Z_scope.

Definition bnds := option (Z * Z).

Definition overlap (lo hi : Z) (ex : bnds) : bool * bool :=
  match ex with
  | None => (false, false)
  | Some (el, eu) => ((el <? lo) && (lo <? eu), (el <? hi) && (hi <? eu))
  end.

Definition adjust (lo hi : Z) (ex : bnds) : Z * Z :=
  match ex with
  | None => (lo, hi)
  | Some (el, eu) =>
    match overlap lo hi ex with
    | (true, true) => (0, 0)
    | (false, true) => (lo, el)
    | (true, false) => (eu, hi)
    | _ => (lo, hi)
    end
  end.

Definition clamp (v lo hi : Z) (ex : bnds) : option Z * option Z :=
  let pre :=
    match ex with
    | None => None
    | Some (el, eu) =>
      match overlap lo hi ex with
      | (true, true) => Some (None, None)
      | (true, false) => if v <? eu then Some (None, Some eu) else None
      | (false, true) => if el <? v then Some (Some el, None) else None
      | _ => None
      end
    end in
  match pre with
  | Some r => r
  | None =>
    if v <? lo then (Some lo, None)
    else if hi <? v then (None, Some hi)
    else match ex with
         | Some (el, eu) =>
           if negb (v =? 0) && (el <? v) && (v <? eu) then (Some el, Some eu) else (Some v, Some v)
         | None => (Some v, Some v)
         end
  end.

Definition pick (pref : Z) (r : option Z * option Z) (cur : Z) : Z :=
  match r with
  | (None, Some p) | (Some p, None) => p
  | (Some pl, Some ph) => if (ph - pref) <? (pref - pl) then ph else pl
  | (None, None) => cur
  end.

Definition usable (t lo hi : Z) (ex : bnds) : Prop :=
  lo <= t <= hi /\ match ex with Some (el, eu) => t = 0 \/ ~ (el < t < eu) | None => True end.

Lemma clamp_usable v lo hi ex cur :
  lo <= hi ->
  (match ex with Some (el, eu) => el <= 0 <= eu | None => True end) ->
  usable cur lo hi ex \/ fst (overlap lo hi ex) && snd (overlap lo hi ex) = true ->
  let t := pick v (clamp v lo hi ex) cur in
  usable t lo hi ex \/ (fst (overlap lo hi ex) && snd (overlap lo hi ex) = true /\ t = cur).
Proof.
  intros Hlh Hex Hcur. unfold pick, clamp, overlap, usable in *.
  destruct ex as [[el eu]|]; cbn [fst snd] in *.
  - destruct (el <? lo) eqn:E1, (lo <? eu) eqn:E2, (el <? hi) eqn:E3, (hi <? eu) eqn:E4; cbn [andb fst snd];
    try (destruct (v <? eu) eqn:E5); try (destruct (el <? v) eqn:E6);
    try (destruct (v <? lo) eqn:E7); try (destruct (hi <? v) eqn:E8);
    try (destruct (v =? 0) eqn:E9); cbn [negb andb];
    try (destruct (el <? v) eqn:E10); try (destruct (v <? eu) eqn:E11); cbn [andb];
    try (destruct (eu - v <? v - el) eqn:E12); lia.
  - destruct (v <? lo) eqn:E7; [lia|]. destruct (hi <? v) eqn:E8; lia.
Qed.
Print Assumptions clamp_usable.
