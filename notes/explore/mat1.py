import random, itertools, sys
from datetime import datetime, timedelta, timezone
from frequenz.quantities import Power
from frequenz.sdk.timeseries._base_types import Bounds, SystemBounds
from frequenz.sdk.microgrid._power_managing._matryoshka import Matryoshka
from frequenz.sdk.microgrid._power_managing._base_classes import Proposal
W=Power.from_watts
ids=frozenset({1})
def sb(l,u,el,eu):
    return SystemBounds(timestamp=datetime.now(tz=timezone.utc), inclusion_bounds=Bounds(W(l),W(u)), exclusion_bounds=Bounds(W(el),W(eu)))
def prop(src, prio, pref, lo, hi, t=0.0):
    return Proposal(source_id=src, preferred_power=None if pref is None else W(pref), bounds=Bounds(None if lo is None else W(lo), None if hi is None else W(hi)), component_ids=ids, priority=prio, creation_time=t, set_operating_point=False)
rng=random.Random(int(sys.argv[1]))
vals=[-100,-60,-50,-30,-20,-10,0,10,20,30,50,60,100,None]
stats={}
ex={}
def note(k,info):
    stats[k]=stats.get(k,0)+1
    if k not in ex or len(str(info))<len(str(ex[k])): ex[k]=info
for it in range(30000):
    l=rng.choice([-100,-50,0]); u=rng.choice([0,50,100])
    el=rng.choice([0,-10,-30]); eu=rng.choice([0,10,30])
    el=max(el,l); eu=min(eu,u)
    S=sb(l,u,el,eu)
    n=rng.randint(1,4)
    props=[]
    for i in range(n):
        lo=rng.choice(vals); hi=rng.choice(vals)
        if lo is not None and hi is not None and lo>hi: lo,hi=hi,lo
        props.append(prop(f"a{i}", rng.randint(0,3), rng.choice(vals), lo, hi))
    def run(order):
        m=Matryoshka(timedelta(seconds=60))
        t=None
        for p in order: t=m.calculate_target_power(ids,p,S,must_return_power=True)
        return t.as_watts()
    t0=run(props)
    desc=(l,u,el,eu,[(p.priority,p.source_id,p.preferred_power and p.preferred_power.as_watts(),p.bounds.lower and p.bounds.lower.as_watts(),p.bounds.upper and p.bounds.upper.as_watts()) for p in props],t0)
    if not (l<=t0<=u): note("outside incl",desc)
    if t0!=0 and el<t0<eu: note("in excl",desc)
    for perm in itertools.permutations(props):
        if run(list(perm))!=t0: note("order dep",desc); break
print(stats)
for k,v in ex.items(): print(k,v)
