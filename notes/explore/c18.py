import random, sys, math
from datetime import datetime, timezone
from frequenz.client.microgrid import ComponentMetricId as M
from frequenz.sdk.timeseries.battery_pool._metric_calculator import SoCCalculator, CapacityCalculator
from frequenz.sdk.timeseries.battery_pool._component_metrics import ComponentMetricsData
now=datetime.now(tz=timezone.utc)
rng=random.Random(int(sys.argv[1]))
def mk(bs):
    return {i:ComponentMetricsData(i, now, {k:v for k,v in {M.CAPACITY:c,M.SOC_LOWER_BOUND:lo,M.SOC_UPPER_BOUND:hi,M.SOC:s}.items() if v is not None}) for i,(c,lo,hi,s) in enumerate(bs)}
def soc(bs, working):
    r=SoCCalculator(set(range(len(bs)))).calculate(mk(bs), working).value
    return None if r is None else r.as_percent()
st={"n":0,"range":0,"mono":0,"scale":0,"none":0}; ex={}
for it in range(40000):
    n=rng.randint(0,4)
    bs=[]
    for _ in range(n):
        lo=rng.choice([0,10,20,50]); hi=rng.choice([lo,lo, 80,90,100]) ; hi=max(hi,lo)
        bs.append((rng.choice([0,1,10,1000,None]), rng.choice([lo,None]) if rng.random()<.1 else lo, hi, rng.choice([lo-5,lo,lo+1,(lo+hi)/2,hi,hi+5,None])))
    working={i for i in range(n) if rng.random()<.8}
    s=soc(bs,working); st["n"]+=1
    qual=[i for i in working if all(v is not None for v in bs[i])]
    if (s is None)!=(len(qual)==0): st["none"]+=1; ex.setdefault("none",(bs,working,s))
    if s is None: continue
    if not (0<=s<=100): st["range"]+=1; ex.setdefault("range",(bs,working,s))
    if qual:
        i=rng.choice(qual); c,lo,hi,x=bs[i]; bs2=list(bs); bs2[i]=(c,lo,hi,x+rng.choice([0.5,3,20]))
        s2=soc(bs2,working)
        if s2 < s-1e-9: st["mono"]+=1; ex.setdefault("mono",(bs,bs2,working,s,s2))
        k=rng.choice([0.001,0.5,3,1000])
        bs3=[(None if c is None else c*k,lo,hi,x) for c,lo,hi,x in bs]
        s3=soc(bs3,working)
        if abs(s3-s)>1e-6: st["scale"]+=1; ex.setdefault("scale",(bs,k,working,s,s3))
print(st); print(ex)
