from fractions import Fraction as F
from dist1 import *
pairs=[([bat(0,F(10),F(1),F(0),F(90),F(-50),F(0),F(0),F(200))],[inv(2,F(0),F(0),F(10),F(210))]),([bat(3,F(100),F(50),F(20),F(80),F(0),F(0),F(0),F(50))],[inv(5,F(-1000),F(0),F(0),F(0))])]
pd=[InvBatPair(AggregatedBatteryData(b),i) for b,i in pairs]
print(BatteryDistributionAlgorithm(1).distribute_power(F(11),pd))
print(BatteryDistributionAlgorithm(2).distribute_power(F(150),pd))
