from mat1 import *
S=sb(-100,100,0,0)
m=Matryoshka(timedelta(seconds=60))
m.calculate_target_power(ids, prop("b",1,None,-10,10), S, True)
t=m.calculate_target_power(ids, prop("a",1,50,None,None), S, True)
r=m.get_status(ids,1,S)
print("target",t,"reported bounds for prio 1:",r.bounds, "adjust(50)=",r.adjust_to_bounds(W(50)))
