import random, math, sys
from types import SimpleNamespace as NS
from fractions import Fraction as F
from frequenz.sdk.microgrid._power_distributing._distribution_algorithm import (
    AggregatedBatteryData, BatteryDistributionAlgorithm, InvBatPair)

def bat(cid, cap, soc, lo, hi, il, el, eu, iu):
    return NS(component_id=cid, capacity=cap, soc=soc, soc_lower_bound=lo, soc_upper_bound=hi,
              power_inclusion_lower_bound=il, power_exclusion_lower_bound=el,
              power_exclusion_upper_bound=eu, power_inclusion_upper_bound=iu)
def inv(cid, il, el, eu, iu):
    return NS(component_id=cid, active_power_inclusion_lower_bound=il, active_power_exclusion_lower_bound=el,
              active_power_exclusion_upper_bound=eu, active_power_inclusion_upper_bound=iu)

def gen(rng):
    n = rng.randint(1,3)
    pairs=[]; cid=0
    for g in range(n):
        k = rng.randint(1,2); m = rng.randint(1,2)
        bats=[]
        for _ in range(k):
            eu = rng.choice([0,0,10,50,100]); iu = eu + rng.choice([0,50,200,1000])
            el = -rng.choice([0,0,10,50,100]); il = el - rng.choice([0,50,200,1000])
            lo = rng.choice([0,10,20]); hi = rng.choice([80,90,100])
            soc = rng.choice([lo-5, lo, lo+1, 50, hi-1, hi, hi+5])
            bats.append(bat(cid, rng.choice([1,10,100]), soc, lo, hi, il, el, eu, iu)); cid+=1
        invs=[]
        for _ in range(m):
            eu = rng.choice([0,0,10,50,100]); iu = eu + rng.choice([0,50,200,1000])
            el = -rng.choice([0,0,10,50,100]); il = el - rng.choice([0,50,200,1000])
            invs.append(inv(cid, il, el, eu, iu)); cid+=1
        pairs.append((bats, invs))
    return pairs

def get_bounds(pairs_data):
    il = sum(max(b.power_bounds.inclusion_lower, sum(i.active_power_inclusion_lower_bound for i in invs)) for b,invs in pairs_data)
    iu = sum(min(b.power_bounds.inclusion_upper, sum(i.active_power_inclusion_upper_bound for i in invs)) for b,invs in pairs_data)
    el = min(sum(b.power_bounds.exclusion_lower for b,_ in pairs_data), sum(i.active_power_exclusion_lower_bound for _,invs in pairs_data for i in invs))
    eu = max(sum(b.power_bounds.exclusion_upper for b,_ in pairs_data), sum(i.active_power_exclusion_upper_bound for _,invs in pairs_data for i in invs))
    return il, el, eu, iu

def check(pairs, power, exp):
    pd = [InvBatPair(AggregatedBatteryData(b), i) for b,i in pairs]
    alg = BatteryDistributionAlgorithm(exp)
    res = alg.distribute_power(power, pd)
    errs=[]
    tot = sum(res.distribution.values()) + res.remaining_power
    if abs(tot-power) > 1e-6: errs.append(f"C01 sum {tot} != {power}")
    sgn = 1 if power>0 else -1
    for k,v in res.distribution.items():
        if v*sgn < -1e-9: errs.append(f"C01 sign inv {k} {v}")
    if res.remaining_power*sgn < -1e-9 or abs(res.remaining_power) > abs(power)+1e-9: errs.append(f"C01 rem {res.remaining_power}")
    for b, invs in pd:
        gtot=0
        for i in invs:
            v = res.distribution[i.component_id]; gtot+=v
            if abs(v)>1e-9:
                if not (i.active_power_inclusion_lower_bound-1e-9 <= v <= i.active_power_inclusion_upper_bound+1e-9): errs.append(f"C02 inv {i.component_id} {v} outside incl")
                if i.active_power_exclusion_lower_bound+1e-9 < v < i.active_power_exclusion_upper_bound-1e-9: errs.append(f"C02 inv {i.component_id} {v} in excl")
        pb=b.power_bounds
        if abs(gtot)>1e-9:
            if not (pb.inclusion_lower-1e-9 <= gtot <= pb.inclusion_upper+1e-9): errs.append(f"C02 group {b.component_id} {gtot} outside incl")
            if pb.exclusion_lower+1e-9 < gtot < pb.exclusion_upper-1e-9: errs.append(f"C02 group {b.component_id} {gtot} in excl {pb}")
            head = (b.soc_upper_bound - b.soc) if power>0 else (b.soc - b.soc_lower_bound)
            if head <= 0: errs.append(f"C02 group {b.component_id} no headroom but {gtot}")
    return res, errs

if __name__=="__main__":
    rng = random.Random(int(sys.argv[1]) if len(sys.argv)>1 else 0)
    kinds={}
    nok=0
    for it in range(20000):
        pairs = gen(rng)
        pd = [InvBatPair(AggregatedBatteryData(b), i) for b,i in pairs]
        il, el, eu, iu = get_bounds(pd)
        cands=[]
        if eu<=iu and iu>0: cands += [max(eu,1e-3) if eu>0 else iu/2, iu, (eu+iu)/2, iu+50]
        if il<=el and il<0: cands += [el if el<0 else il/2, il, (el+il)/2, il-50]
        cands=[c for c in cands if abs(c)>1e-6 and (c>=eu if c>0 else c<=el)]
        if not cands: continue
        p = rng.choice(cands)
        exp = rng.choice([1,1,1,0,2,0.5])
        try:
            res, errs = check(pairs, p, exp)
        except Exception as e:
            errs=[f"EXC {type(e).__name__} {e}"]; res=None
        nok+=1
        for e in errs:
            k = e.split()[0]+" "+e.split()[1]
            if k not in kinds:
                kinds[k]=(pairs,p,exp,res,e)
            kinds.setdefault("count "+k,0)
            kinds["count "+k]+=1
    print("cases", nok)
    for k,v in kinds.items():
        if k.startswith("count"): print(k, v)
    for k,v in kinds.items():
        if not k.startswith("count"):
            print("=====",k); pairs,p,exp,res,e=v
            print(e); print("power",p,"exp",exp)
            for b,i in pairs:
                print(" bats",[vars(x) for x in b]); print(" invs",[vars(x) for x in i])
            print(res)
