import asyncio
from datetime import datetime, timedelta, timezone
from frequenz.channels import Broadcast
from frequenz.client.microgrid import ComponentCategory
from frequenz.quantities import Power
from frequenz.sdk.timeseries._base_types import Bounds, SystemBounds
from frequenz.sdk.microgrid._power_managing._power_managing_actor import PowerManagingActor
from frequenz.sdk.microgrid._power_managing._base_classes import Proposal
from frequenz.sdk._internal._channels import ChannelRegistry
W=Power.from_watts
ids=frozenset({1})
def sb(l,u,el=0,eu=0):
    return SystemBounds(timestamp=datetime.now(tz=timezone.utc), inclusion_bounds=Bounds(W(l),W(u)), exclusion_bounds=Bounds(W(el),W(eu)))
def prop(src, prio, pref, lo=None, hi=None, op=False):
    return Proposal(source_id=src, preferred_power=None if pref is None else W(pref), bounds=Bounds(None if lo is None else W(lo), None if hi is None else W(hi)), component_ids=ids, priority=prio, creation_time=0.0, set_operating_point=op)
async def main():
    a=Broadcast(name="a"); b=Broadcast(name="b"); c=Broadcast(name="c"); d=Broadcast(name="d")
    pm = PowerManagingActor(a.new_receiver(), b.new_receiver(), c.new_sender(), d.new_receiver(), ChannelRegistry(name="x"), component_category=ComponentCategory.BATTERY)
    pm._system_bounds[ids]=sb(-100,100)
    def show(tag, t):
        print(tag, "request=",t, " regular tgt=", pm._set_power_group.get_target_power(ids), " op tgt=", pm._set_op_power_group.get_target_power(ids))
    show("op 70", pm._calculate_target_power(ids, prop("op",1,70,op=True), must_send=True))
    show("reg 20", pm._calculate_target_power(ids, prop("r",1,20), must_send=True))
    pm._system_bounds[ids]=sb(-100,80)
    show("bounds -> [-100,80]", pm._calculate_target_power(ids, None))
    pm._system_bounds[ids]=sb(-100,100)
    show("bounds -> [-100,100]", pm._calculate_target_power(ids, None))
    pm._system_bounds[ids]=sb(-100,15)
    show("bounds -> [-100,15]", pm._calculate_target_power(ids, None))
asyncio.run(main())
