import asyncio, sys
from datetime import datetime, timedelta, timezone
import async_solipsism, time_machine
from frequenz.channels import Broadcast
from frequenz.quantities import Quantity
from frequenz.sdk.timeseries import Sample
from frequenz.sdk.timeseries._resampling import Resampler, ResamplerConfig
EPOCH=datetime(1970,1,1,tzinfo=timezone.utc)
async def scenario(start_us, period_us, align, lateness):
    out={}
    with time_machine.travel(EPOCH+timedelta(microseconds=start_us), tick=False) as ft:
        async def adv(us):
            await asyncio.sleep(us/1e6); ft.shift(timedelta(microseconds=us))
        cfg=ResamplerConfig(resampling_period=timedelta(microseconds=period_us), align_to=align)
        rs=Resampler(cfg)
        chans=[Broadcast[Sample[Quantity]](name=f"s{i}") for i in range(2)]
        def mk(i):
            async def sink(s): out.setdefault(i,[]).append(int((s.timestamp-EPOCH)/timedelta(microseconds=1)))
            return sink
        rs.add_timeseries("a", chans[0].new_receiver(), mk(0))
        task=asyncio.create_task(rs.resample())
        for k,l in enumerate(lateness):
            await adv(l)
            if k==2: rs.add_timeseries("b", chans[1].new_receiver(), mk(1))
        for _ in range(5): await asyncio.sleep(0)
        task.cancel()
        try: await task
        except BaseException: pass
        await rs.stop()
    return out
def main():
    P=1_000_000
    for start in (10*P, 10*P+1, 10*P+P//2, 10*P+P-1):
        for align in (EPOCH, None, EPOCH+timedelta(microseconds=123456), EPOCH+timedelta(days=400000//365)):
            loop=async_solipsism.EventLoop(); asyncio.set_event_loop(loop)
            out=loop.run_until_complete(scenario(start,P,align,[P//3, P, 3*P+5, P//2, 2*P]))
            loop.close()
            a=out.get(0,[]); b=out.get(1,[])
            al = None if align is None else int((align-EPOCH)/timedelta(microseconds=1))
            ok = all(y-x==P for x,y in zip(a,a[1:])) and (al is None or all((t-al)%P==0 for t in a)) and (not a or start<a[0]<=start+2*P) and all(t in a for t in b)
            print(start-10*P, al, "first", a[0]-start if a else None, "n", len(a), len(b), "OK" if ok else "BAD", a[:3], b[:2])
main()
