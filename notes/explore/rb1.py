from datetime import datetime, timedelta, timezone
import numpy as np
from frequenz.sdk.timeseries._ringbuffer import OrderedRingBuffer
from frequenz.sdk.timeseries import Sample
from frequenz.quantities import Quantity
E = datetime(2023,1,1,tzinfo=timezone.utc)
def S(t, v): return Sample(E+timedelta(seconds=t), None if v is None else Quantity(v))
rb = OrderedRingBuffer([0.0]*5, timedelta(seconds=1), E)
for i in range(5): rb.update(S(i, float(i+10)))
print(rb._buffer, rb.gaps)
# tiny unaligned query inside one slot
print("tiny:", rb.window(E+timedelta(seconds=2.1), E+timedelta(seconds=2.3)))
print("unaligned:", rb.window(E+timedelta(seconds=1.4), E+timedelta(seconds=3.6)))
# gap + unaligned start
rb2 = OrderedRingBuffer([-1.0]*6, timedelta(seconds=1), E)
rb2.update(S(0, 10.)); rb2.update(S(1, 11.)); rb2.update(S(2,12.)); rb2.update(S(4, 14.)); rb2.update(S(5,15.))
print(rb2._buffer, rb2.gaps)
print("aligned:", rb2.window(E+timedelta(seconds=2), E+timedelta(seconds=5)))
print("unaligned start 1.6:", rb2.window(E+timedelta(seconds=1.6), E+timedelta(seconds=5)))
print("unaligned start 2.4:", rb2.window(E+timedelta(seconds=2.4), E+timedelta(seconds=5)))
