import random, sys
from datetime import datetime, timezone
from types import SimpleNamespace as NS
from frequenz.client.microgrid import ComponentMetricId as M
from frequenz.quantities import Power
from frequenz.sdk.timeseries.battery_pool._metric_calculator import PowerBoundsCalculator, SoCCalculator, CapacityCalculator
from frequenz.sdk.timeseries.battery_pool._component_metrics import ComponentMetricsData
from frequenz.sdk.microgrid._power_distributing._component_managers._battery_manager import BatteryManager
from frequenz.sdk.microgrid._power_distributing._distribution_algorithm import AggregatedBatteryData, InvBatPair
from frequenz.sdk.microgrid._power_distributing.request import Request
from frequenz.sdk.microgrid._power_distributing.result import OutOfBounds
from dist1 import bat, inv, gen
now=datetime.now(tz=timezone.utc)
rng=random.Random(int(sys.argv[1]))
stats={"cases":0,"rej":0,"minpow":0,"incl_ne":0}
ex={}
for it in range(20000):
    pairs=gen(rng)
    # build calculator
    calc=PowerBoundsCalculator.__new__(PowerBoundsCalculator)
    bat_inv={}; bat_bats={}
    md={}
    for bs,ins in pairs:
        bset=frozenset(b.component_id for b in bs); iset=frozenset(i.component_id for i in ins)
        for b in bs:
            bat_inv[b.component_id]=iset; bat_bats[b.component_id]=bset
            md[b.component_id]=ComponentMetricsData(b.component_id, now, {M.POWER_INCLUSION_LOWER_BOUND:b.power_inclusion_lower_bound, M.POWER_EXCLUSION_LOWER_BOUND:b.power_exclusion_lower_bound, M.POWER_EXCLUSION_UPPER_BOUND:b.power_exclusion_upper_bound, M.POWER_INCLUSION_UPPER_BOUND:b.power_inclusion_upper_bound})
        for i in ins:
            md[i.component_id]=ComponentMetricsData(i.component_id, now, {M.ACTIVE_POWER_INCLUSION_LOWER_BOUND:i.active_power_inclusion_lower_bound, M.ACTIVE_POWER_EXCLUSION_LOWER_BOUND:i.active_power_exclusion_lower_bound, M.ACTIVE_POWER_EXCLUSION_UPPER_BOUND:i.active_power_exclusion_upper_bound, M.ACTIVE_POWER_INCLUSION_UPPER_BOUND:i.active_power_inclusion_upper_bound})
    calc._bat_inv_map=bat_inv; calc._bat_bats_map=bat_bats
    calc._battery_metrics=[M.POWER_INCLUSION_LOWER_BOUND,M.POWER_EXCLUSION_LOWER_BOUND,M.POWER_EXCLUSION_UPPER_BOUND,M.POWER_INCLUSION_UPPER_BOUND]
    calc._inverter_metrics=[M.ACTIVE_POWER_INCLUSION_LOWER_BOUND,M.ACTIVE_POWER_EXCLUSION_LOWER_BOUND,M.ACTIVE_POWER_EXCLUSION_UPPER_BOUND,M.ACTIVE_POWER_INCLUSION_UPPER_BOUND]
    sbnd=calc.calculate(md, set(bat_inv))
    pd=[InvBatPair(AggregatedBatteryData(b),i) for b,i in pairs]
    mgr=BatteryManager.__new__(BatteryManager)
    allb={b.component_id for bs,_ in pairs for b in bs}
    mgr._battery_caches={b:None for b in allb}
    enf=mgr._get_bounds(pd)
    il,iu=sbnd.inclusion_bounds.lower.as_watts(), sbnd.inclusion_bounds.upper.as_watts()
    el,eu=sbnd.exclusion_bounds.lower.as_watts(), sbnd.exclusion_bounds.upper.as_watts()
    if (il,iu)!=(enf.inclusion_lower, enf.inclusion_upper): stats["incl_ne"]+=1
    for p in {il,iu,el,eu,el-1,eu+1,(il+el)/2,(iu+eu)/2, il+1, iu-1}:
        if p==0: continue
        P=Power.from_watts(p)
        if P in sbnd or ((il<=p<=iu) and (p<=el or p>=eu)):
            stats["cases"]+=1
            for adj in (True,False):
                r=mgr._check_request(Request(power=P, component_ids=allb, adjust_power=adj), pd)
                if isinstance(r,OutOfBounds):
                    stats["rej"]+=1; ex.setdefault("rej",(p,adj,sbnd,enf))
            mp=0
            for b,invs in pd:
                pb=b.power_bounds
                if p>0: mp+=max(pb.exclusion_upper, min(i.active_power_exclusion_upper_bound for i in invs))
                else: mp+=max(-pb.exclusion_lower, min(-i.active_power_exclusion_lower_bound for i in invs))
            if abs(p)<mp: stats["minpow"]+=1; ex.setdefault("minpow",(p,mp,sbnd))
print(stats); print(ex)
