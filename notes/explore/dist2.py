import random, sys
from dist1 import *
def adv_bounds(pd):
    il = sum(max(b.power_bounds.inclusion_lower, sum(i.active_power_inclusion_lower_bound for i in invs)) for b,invs in pd)
    iu = sum(min(b.power_bounds.inclusion_upper, sum(i.active_power_inclusion_upper_bound for i in invs)) for b,invs in pd)
    el = sum(min(b.power_bounds.exclusion_lower, sum(i.active_power_exclusion_lower_bound for i in invs)) for b,invs in pd)
    eu = sum(max(b.power_bounds.exclusion_upper, sum(i.active_power_exclusion_upper_bound for i in invs)) for b,invs in pd)
    return il, el, eu, iu
def consistent(pd):
    # group min power <= group incl bound in both directions
    for b, invs in pd:
        pb=b.power_bounds
        mp_up = max(pb.exclusion_upper, min(i.active_power_exclusion_upper_bound for i in invs))
        ib_up = min(sum(min(i.active_power_inclusion_upper_bound, pb.inclusion_upper) for i in invs), pb.inclusion_upper)
        mp_lo = max(-pb.exclusion_lower, min(-i.active_power_exclusion_lower_bound for i in invs))
        ib_lo = min(sum(-max(i.active_power_inclusion_lower_bound, pb.inclusion_lower) for i in invs), -pb.inclusion_lower)
        if mp_up>ib_up or mp_lo>ib_lo: return False
    return True
rng = random.Random(int(sys.argv[1]))
mode = sys.argv[2]
stats={}
ex={}
n=0
for it in range(40000):
    pairs = gen(rng)
    if mode=="headroom":
        for b,i in pairs:
            for x in b:
                x.soc = rng.choice([x.soc_lower_bound+1, 50, x.soc_upper_bound-1])
    if mode=="single":
        pairs=[(b[:1], i[:1]) for b,i in pairs]
        for b,i in pairs:
            for x in b: x.soc = rng.choice([x.soc_lower_bound+1, 50, x.soc_upper_bound-1])
    pd = [InvBatPair(AggregatedBatteryData(b), i) for b,i in pairs]
    if not consistent(pd): continue
    il, el, eu, iu = adv_bounds(pd)
    cands=[]
    if eu<=iu and iu>0: cands += [eu, iu, (eu+iu)/2, iu+50, eu+1]
    if il<=el and il<0: cands += [el, il, (el+il)/2, il-50, el-1]
    cands=[c for c in cands if abs(c)>1e-6 and (c>=eu if c>0 else c<=el)]
    if not cands: continue
    p = rng.choice(cands)
    exp = 1 if mode!="exp" else rng.choice([0,0.5,2])
    n+=1
    try: res, errs = check(pairs, p, exp)
    except Exception as e: errs=[f"EXC {type(e).__name__} {e}"]; res=None
    for e in errs:
        k=" ".join(e.split()[:2])
        stats[k]=stats.get(k,0)+1
        if k not in ex or len(str(ex[k][0]))>len(str(pairs)): ex[k]=(pairs,p,exp,res,e)
print("cases",n,stats)
for k,(pairs,p,exp,res,e) in ex.items():
    print("=====",k,e,"power",p,"exp",exp)
    for b,i in pairs:
        print(" bats",[ (x.capacity,x.soc,x.soc_lower_bound,x.soc_upper_bound,x.power_inclusion_lower_bound,x.power_exclusion_lower_bound,x.power_exclusion_upper_bound,x.power_inclusion_upper_bound) for x in b])
        print(" invs",[ (x.component_id, x.active_power_inclusion_lower_bound,x.active_power_exclusion_lower_bound,x.active_power_exclusion_upper_bound,x.active_power_inclusion_upper_bound) for x in i])
    print(res)
