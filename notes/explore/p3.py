import asyncio
from datetime import datetime, timedelta, timezone
from frequenz.channels import Broadcast
from frequenz.quantities import Quantity
from frequenz.sdk.timeseries import Sample
from frequenz.sdk.timeseries.formula_engine._formula_engine import FormulaEngine, FormulaEngine3Phase
E = datetime(2023,1,1,tzinfo=timezone.utc)
async def main():
    chans=[Broadcast[Sample[Quantity]](name=f"c{i}") for i in range(3)]
    engs=tuple(FormulaEngine.from_receiver(f"p{i}", chans[i].new_receiver(), Quantity) for i in range(3))
    e3=FormulaEngine3Phase("x", Quantity, engs)
    rx=e3.new_receiver()
    await asyncio.sleep(0)
    snd=[c.new_sender() for c in chans]
    # phase 2 stream starts one step later than phases 1 and 3
    for k in range(4):
        for i in range(3):
            if i==1 and k==0: continue
            await snd[i].send(Sample(E+timedelta(seconds=k), Quantity(100*(i+1)+k)))
        for _ in range(30): await asyncio.sleep(0)
    out=[]
    while True:
        try: m=await asyncio.wait_for(rx.receive(),0.05); out.append(((m.timestamp-E).total_seconds(), m.value_p1.base_value, m.value_p2.base_value, m.value_p3.base_value))
        except Exception: break
    print(out)
asyncio.run(main())
