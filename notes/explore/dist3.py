import random, sys
from exact import X
from dist1 import *
def toX(pairs):
    out=[]
    for bs,ins in pairs:
        out.append(([NS(**{k:(X(v) if k!='component_id' else v) for k,v in vars(b).items()}) for b in bs],
                    [NS(**{k:(X(v) if k!='component_id' else v) for k,v in vars(i).items()}) for i in ins]))
    return out
rng=random.Random(5)
n=0; bad=0; maxdiff=0
import time; t0=time.time()
for it in range(3000):
    pairs=gen(rng)
    p=rng.choice([-1510,-300,-90,11,75,100,150,400,1234])
    exp=rng.choice([0,1,2,3])
    try:
        rf=BatteryDistributionAlgorithm(exp).distribute_power(p,[InvBatPair(AggregatedBatteryData(b),i) for b,i in pairs])
    except Exception as e:
        rf=("EXC",type(e).__name__)
    try:
        rx=BatteryDistributionAlgorithm(exp).distribute_power(X(p),[InvBatPair(AggregatedBatteryData(b),i) for b,i in toX(pairs)])
    except Exception as e:
        rx=("EXC",type(e).__name__, str(e)[:80])
    n+=1
    if isinstance(rf,tuple) or isinstance(rx,tuple):
        if not(isinstance(rf,tuple) and isinstance(rx,tuple) and rf[1]==rx[1]): bad+=1; print("exc mismatch",rf,rx)
        continue
    for k in rf.distribution:
        d=abs(float(rx.distribution[k])-rf.distribution[k]); maxdiff=max(maxdiff,d)
        if d>1e-6: bad+=1; print("diff",k,rf.distribution[k],rx.distribution[k]); break
    types={type(v).__name__ for v in rx.distribution.values()}|{type(rx.remaining_power).__name__}
    if types-{"X","float","int"}: print(types)
print("cases",n,"bad",bad,"maxdiff",maxdiff,"time",time.time()-t0)
print(rx)
