import asyncio
from datetime import datetime, timedelta, timezone
import numpy as np
from frequenz.channels import Broadcast
from frequenz.quantities import Quantity
from frequenz.sdk.timeseries import Sample, MovingWindow
E = datetime(2023,1,1,tzinfo=timezone.utc)
async def main():
    ch=Broadcast[Sample[Quantity]](name="c")
    mw=MovingWindow(size=timedelta(seconds=6), resampled_data_recv=ch.new_receiver(), input_sampling_period=timedelta(seconds=1))
    mw._buffer._buffer[:] = -7.0   # make "unwritten" cells recognisable (np.empty is arbitrary)
    mw.start()
    s=ch.new_sender()
    for t,v in [(0,10.),(1,11.),(4,14.),(5,15.)]:
        await s.send(Sample(E+timedelta(seconds=t), Quantity(v)))
    await asyncio.sleep(0.01)
    print("window", mw.window(None,None), "gaps", mw._buffer.gaps)
    print("at(2)=", mw.at(2), " at(ts=3)=", mw.at(E+timedelta(seconds=3)), " mw[2]=", mw[2])
    await mw.stop()
asyncio.run(main())
