import asyncio
from datetime import datetime, timedelta, timezone
from frequenz.channels import Broadcast
from frequenz.quantities import Power, Quantity
from frequenz.sdk.timeseries import Sample
from frequenz.sdk.timeseries.formula_engine._formula_engine import FormulaEngine, FormulaBuilder
E = datetime(2023,1,1,tzinfo=timezone.utc)
async def run(build, rows, n=2):
    chans=[Broadcast[Sample[Quantity]](name=f"c{i}") for i in range(n)]
    engines=[FormulaEngine.from_receiver(f"c{i}", chans[i].new_receiver(), Quantity) for i in range(n)]
    eng = build(*engines)
    rx = eng.new_receiver()
    await asyncio.sleep(0)
    out=[]
    senders=[c.new_sender() for c in chans]
    for k,row in enumerate(rows):
        for s,v in zip(senders,row):
            await s.send(Sample(E+timedelta(seconds=k), None if v is None else Quantity(v)))
        for _ in range(20): await asyncio.sleep(0)
    while True:
        try:
            m = await asyncio.wait_for(rx.receive(), 0.05); out.append((int((m.timestamp-E).total_seconds()), None if m.value is None else m.value.base_value))
        except Exception: break
    return out
async def main():
    rows=[(1.0,2.0),(None,2.0),(1.0,None),(5.0,0.0),(3.0,4.0)]
    print("max a,b", await run(lambda a,b: a.max(b).build("x"), rows))
    print("min a,b", await run(lambda a,b: a.min(b).build("x"), rows))
    print("a/b   ", await run(lambda a,b: (a/b).build("x"), rows))
    print("a+b   ", await run(lambda a,b: (a+b).build("x"), rows))
    print("a+b-a*b/a", await run(lambda a,b: (a+b-a*b/a).build("x"), rows))
asyncio.run(main())
